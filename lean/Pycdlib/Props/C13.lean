/-
Props/C13 — namespace rules (ISO9660 identifiers): the acceptance predicates of pycdlib are exactly the
declarative naming rules, and a refusal is always the library's invalid-input error.

`LegalFile` / `LegalDir` are written from the documented rules (d-characters at levels 1-3, 8.3 at level 1,
directory names ≤ 8 / ≤ 207, version 1..32767 in plain decimal digits, at least one character in name or
extension, exactly one separator 2), not from the code.
-/
import Pycdlib.Model.Names
import Pycdlib.Proofs.Names
import Pycdlib.Generated.Names
namespace Pycdlib

/-- A file identifier is `name [. ext] [; ver]`. -/
def LegalFile (lvl : Nat) (n : Bytes) : Prop :=
  ∃ (name ext ver : Bytes) (hasDot hasSemi : Bool),
    n = name ++ (if hasDot then cDot :: ext else []) ++ (if hasSemi then cSemi :: ver else []) ∧
    (hasDot = false → ext = [] ∧ cDot ∉ name) ∧ (hasSemi = false → ver = []) ∧
    cDot ∉ ext ∧ cSemi ∉ ext ∧ cSemi ∉ name ∧ cSemi ∉ ver ∧
    (name ≠ [] ∨ ext ≠ []) ∧
    (ver ≠ [] → (∀ b ∈ ver, isDigit b = true) ∧ 1 ≤ decVal ver ∧ decVal ver ≤ 32767) ∧
    (lvl = 1 → name.length ≤ 8 ∧ ext.length ≤ 3) ∧
    (lvl < 4 → (∀ b ∈ name, isD1 b = true) ∧ (∀ b ∈ ext, isD1 b = true))

def LegalDir (lvl : Nat) (n : Bytes) : Prop :=
  n ≠ [] ∧ (lvl = 1 → n.length ≤ 8) ∧ (lvl = 2 ∨ lvl = 3 → n.length ≤ 207) ∧
  (lvl < 4 → ∀ b ∈ n, isD1 b = true)

/-- tie to the source: the model's d-character test is the set in pycdlib.py (regenerated every run). -/
theorem isD1_matches_source : ∀ n : Fin 256, isD1 (UInt8.ofNat n.val) = Generated.allowedD1.contains n.val := by
  decide +kernel

theorem splitIso_of_parts (name ext ver : Bytes) (hasDot hasSemi : Bool)
    (hd : hasDot = false → ext = [] ∧ cDot ∉ name) (hs : hasSemi = false → ver = [])
    (h1 : cDot ∉ ext) (h2 : cSemi ∉ ext) (h3 : cSemi ∉ name) (h4 : cSemi ∉ ver) :
    splitIsoFilename (name ++ (if hasDot then cDot :: ext else []) ++ (if hasSemi then cSemi :: ver else []))
      = (name, ext, ver) := by
  have hdotsemi : cSemi ≠ cDot := by decide
  unfold splitIsoFilename
  cases hasSemi with
  | true =>
    have e1 := (splitLast_eq_some cSemi
      (name ++ (if hasDot then cDot :: ext else []) ++ cSemi :: ver)
      (name ++ (if hasDot then cDot :: ext else [])) ver).mpr ⟨rfl, h4⟩
    simp only [if_true, e1]
    cases hasDot with
    | true =>
      have e2 := (splitLast_eq_some cDot (name ++ cDot :: ext) name ext).mpr ⟨rfl, h1⟩
      simp [e2]
    | false =>
      obtain ⟨rfl, hn⟩ := hd rfl
      have e2 := (splitLast_eq_none cDot name).mpr hn
      simp [e2]
  | false =>
    have hv := hs rfl
    subst hv
    cases hasDot with
    | true =>
      have hnone : splitLast cSemi (name ++ cDot :: ext) = none := by
        apply (splitLast_eq_none _ _).mpr
        simp only [List.mem_append, List.mem_cons, not_or]
        exact ⟨h3, hdotsemi, h2⟩
      have e2 := (splitLast_eq_some cDot (name ++ cDot :: ext) name ext).mpr ⟨rfl, h1⟩
      simp [hnone, e2]
    | false =>
      obtain ⟨rfl, hn⟩ := hd rfl
      have hnone : splitLast cSemi name = none := (splitLast_eq_none _ _).mpr h3
      have e2 := (splitLast_eq_none cDot name).mpr hn
      simp [hnone, e2]

/-- the split always yields a decomposition of the declared shape -/
theorem splitIso_parts (n : Bytes) :
    ∃ (hasDot hasSemi : Bool),
      let p := splitIsoFilename n
      n = p.1 ++ (if hasDot then cDot :: p.2.1 else []) ++ (if hasSemi then cSemi :: p.2.2 else []) ∧
      (hasDot = false → p.2.1 = [] ∧ cDot ∉ p.1) ∧ (hasSemi = false → p.2.2 = [] ∧ cSemi ∉ p.1 ∧ cSemi ∉ p.2.1) ∧
      cDot ∉ p.2.1 ∧ cSemi ∉ p.2.2 := by
  unfold splitIsoFilename
  cases hsemi : splitLast cSemi n with
  | some q =>
    obtain ⟨pre, post⟩ := q
    obtain ⟨hn, hpost⟩ := (splitLast_eq_some _ _ _ _).mp hsemi
    cases hdot : splitLast cDot pre with
    | some r =>
      obtain ⟨nm, ex⟩ := r
      obtain ⟨hpre, hex⟩ := (splitLast_eq_some _ _ _ _).mp hdot
      refine ⟨true, true, ?_⟩
      subst hpre
      simp [hn, hex, hpost, hdot]
    | none =>
      have := (splitLast_eq_none _ _).mp hdot
      refine ⟨false, true, ?_⟩
      simp [hn, this, hpost, hdot]
  | none =>
    have hns := (splitLast_eq_none _ _).mp hsemi
    cases hdot : splitLast cDot n with
    | some r =>
      obtain ⟨nm, ex⟩ := r
      obtain ⟨hpre, hex⟩ := (splitLast_eq_some _ _ _ _).mp hdot
      refine ⟨true, false, ?_⟩
      subst hpre
      simp only [List.mem_append, List.mem_cons, not_or] at hns
      simp [hex, hns.1, hns.2.2, hdot]
    | none =>
      have := (splitLast_eq_none _ _).mp hdot
      refine ⟨false, false, ?_⟩
      simp [this, hns, hdot]

theorem versionOk_iff (v : Bytes) :
    versionOk v = true ↔ (v ≠ [] → (∀ b ∈ v, isDigit b = true) ∧ 1 ≤ decVal v ∧ decVal v ≤ 32767) := by
  unfold versionOk
  cases v with
  | nil => simp
  | cons x xs => simp [List.isEmpty, Bool.and_eq_true, and_assoc]

theorem allD1_iff (l : Bytes) : allD1 l = true ↔ ∀ b ∈ l, isD1 b = true := by
  simp [allD1]

/-- **C13 (file identifiers)**: pycdlib accepts a file identifier iff it is legal, for every byte string. -/
theorem check_file_iff (lvl : Nat) (n : Bytes) :
    checkIsoFilename lvl n = .ok () ↔ LegalFile lvl n := by
  constructor
  · intro h
    obtain ⟨hasDot, hasSemi, hshape⟩ := splitIso_parts n
    unfold checkIsoFilename at h
    generalize hp : splitIsoFilename n = p at h hshape
    obtain ⟨name, ext, ver⟩ := p
    simp only at h hshape
    obtain ⟨hn, hd, hs, hde, hsv⟩ := hshape
    split at h; · cases h
    split at h; · cases h
    split at h; · cases h
    split at h; · cases h
    split at h; · cases h
    rename_i c1 c2 c3 c4 c5
    simp only [Bool.not_eq_true, Bool.not_eq_eq_eq_not, Bool.not_true, Bool.not_false,
      Bool.and_eq_true, Bool.or_eq_true, List.isEmpty_iff, List.contains_iff_mem, not_and, not_or,
      decide_eq_true_eq, Bool.not_eq_true', Bool.and_eq_false_imp] at c1 c2 c3 c4 c5
    refine ⟨name, ext, ver, hasDot, hasSemi, hn, hd, fun h' => (hs h').1, hde, ?_, ?_, hsv, ?_, ?_, ?_, ?_⟩
    · simpa using c3.2
    · simpa using c3.1
    · by_cases hne : name = []
      · right; exact c2 hne
      · left; exact hne
    · exact (versionOk_iff ver).mp (by simpa using c1)
    · intro hl
      have := c4
      simp only [hl, decide_true, true_and, Bool.true_and] at this
      omega
    · intro hl
      have h5 : allD1 name = true ∧ allD1 ext = true := by
        by_cases ha : allD1 name = true
        · by_cases hb : allD1 ext = true
          · exact ⟨ha, hb⟩
          · simp [hl, ha, hb] at c5
        · simp [hl, ha] at c5
      exact ⟨(allD1_iff _).mp h5.1, (allD1_iff _).mp h5.2⟩
  · rintro ⟨name, ext, ver, hasDot, hasSemi, hn, hd, hs, h1, h2, h3, h4, hne, hver, hl1, hd1⟩
    have hsplit := splitIso_of_parts name ext ver hasDot hasSemi hd hs h1 h2 h3 h4
    unfold checkIsoFilename
    rw [hn, hsplit]
    have hv : versionOk ver = true := (versionOk_iff ver).mpr hver
    have hc1 : name.contains cSemi = false := by simpa using h3
    have hc2 : ext.contains cSemi = false := by simpa using h2
    have hemp : (name.isEmpty && ext.isEmpty) = false := by
      rcases hne with h | h
      · cases name with
        | nil => exact absurd rfl h
        | cons _ _ => rfl
      · cases ext with
        | nil => exact absurd rfl h
        | cons _ _ => simp
    simp only [hv, hc1, hc2, hemp, Bool.not_true, Bool.false_eq_true, if_false, Bool.or_false]
    by_cases hl : lvl = 1
    · have := hl1 hl
      have hlt : lvl < 4 := by omega
      have hd := hd1 hlt
      have a1 : allD1 name = true := (allD1_iff _).mpr hd.1
      have a2 : allD1 ext = true := (allD1_iff _).mpr hd.2
      have g1 : ¬ name.length > 8 := by omega
      have g2 : ¬ ext.length > 3 := by omega
      simp [hl, a1, a2, g1, g2]
    · by_cases hlt : lvl < 4
      · have hd := hd1 hlt
        have a1 : allD1 name = true := (allD1_iff _).mpr hd.1
        have a2 : allD1 ext = true := (allD1_iff _).mpr hd.2
        simp [hl, hlt, a1, a2]
      · simp [hl, hlt]

/-- **C13 (directory identifiers)**. -/
theorem check_dir_iff (lvl : Nat) (n : Bytes) :
    checkIsoDirectory lvl n = .ok () ↔ LegalDir lvl n := by
  unfold checkIsoDirectory LegalDir
  simp only [← allD1_iff]
  by_cases hemp : n = []
  · subst hemp; simp
  · have hne : n.isEmpty = false := by cases n <;> simp_all
    simp only [hne, Bool.false_eq_true, if_false, ne_eq, hemp, not_false_eq_true, true_and]
    by_cases hd : allD1 n = true <;> by_cases h1 : lvl = 1 <;> by_cases h2 : lvl = 2 <;>
      by_cases h3 : lvl = 3 <;> by_cases hlt : lvl < 4 <;>
      by_cases hl8 : n.length > 8 <;> by_cases hl207 : n.length > 207 <;>
      simp_all <;> omega

/-- **C13 (refusal class)**: the identifier checks fail only with the library's invalid-input error —
never a `ValueError` or any other undocumented exception, for any byte string. -/
theorem check_refusal_documented (lvl : Nat) (n : Bytes) :
    (checkIsoFilename lvl n = .ok () ∨ checkIsoFilename lvl n = .error .invalidInput) ∧
    (checkIsoDirectory lvl n = .ok () ∨ checkIsoDirectory lvl n = .error .invalidInput) := by
  constructor
  · unfold checkIsoFilename
    generalize splitIsoFilename n = p
    obtain ⟨a, b, c⟩ := p
    simp only
    repeat' split
    all_goals simp
  · unfold checkIsoDirectory
    repeat' split
    all_goals simp

/-- non-vacuity: a level-1 8.3 name with version is legal and accepted; `FOO;+5` is not. -/
example : checkIsoFilename 1 [70, 79, 79, 46, 84, 88, 84, 59, 49] = .ok () := by rfl
example : LegalFile 1 [70, 79, 79, 46, 84, 88, 84, 59, 49] :=
  (check_file_iff _ _).mp (by rfl)
example : ¬ LegalFile 1 [70, 79, 79, 59, 43, 53] := fun h => by
  have h1 := (check_file_iff _ _).mpr h
  have h2 : checkIsoFilename 1 [70, 79, 79, 59, 43, 53] = .error .invalidInput := by rfl
  rw [h2] at h1; cases h1
example : LegalDir 3 [65, 66] := (check_dir_iff _ _).mp (by rfl)

end Pycdlib
