/-
Props/C09Indep — the namespaces are independent trees (C09 "independently of the ISO9660 tree", C10, C13): an edit that
names nothing in a namespace leaves every entry of that namespace exactly as it was.

  * `other_ns_untouched`: for every state, every edit except `rm_file` (which by its documented contract removes the
    content under all of its names) and a reopen, and every namespace the edit has no path in, the entries of that
    namespace after the edit are the entries before it — same paths, same nodes, same order, same flags.
-/
import Pycdlib.Model.Spec
namespace Pycdlib.Spec

/-- does the edit address something in namespace `ns`? -/
def touches : Op → NS → Bool
  | .addFp a, .iso => a.iso.isSome
  | .addFp a, .joliet => a.joliet.isSome
  | .addFp a, .udf => a.udf.isSome
  | .addDir i _ _ _ _, .iso => i.isSome
  | .addDir _ _ j _ _, .joliet => j.isSome
  | .addDir _ _ _ u _, .udf => u.isSome
  | .rmFile _ _, _ => true
  | .rmDir i _ _, .iso => i.isSome
  | .rmDir _ j _, .joliet => j.isSome
  | .rmDir _ _ u, .udf => u.isSome
  | .addLink _ _ n _ _, ns => n == ns
  | .rmLink n _, ns => n == ns
  | .addSymlink i _ _ _ _ _, .iso => i.isSome
  | .addSymlink _ _ _ j _ _, .joliet => j.isSome
  | .addSymlink _ _ _ _ u _, .udf => u.isSome
  | .setHidden n _ _, ns => n == ns
  | .reopen, _ => true

def inNs (ns : NS) (l : List Entry) : List Entry := l.filter fun e => e.ns = ns

theorem inNs_append (ns : NS) (a b : List Entry) : inNs ns (a ++ b) = inNs ns a ++ inNs ns b := by
  simp [inNs]

theorem inNs_mk_none (ns : NS) (rr : Bool) (node : NS → Node) (rn : Bytes) (m : Nat) (ts : List (NS × Path))
    (h : ∀ t ∈ ts, t.1 ≠ ns) : inNs ns (ts.map (mkEntry rr node rn m)) = [] := by
  simp only [inNs, List.filter_eq_nil_iff, List.mem_map]
  rintro e ⟨t, ht, rfl⟩
  simp [mkEntry, h t ht]

theorem targets_not_ns (i j u : Option Path) (ns : NS)
    (h : (match ns with | .iso => i.isSome | .joliet => j.isSome | .udf => u.isSome) = false) :
    ∀ t ∈ optAll [i.map (NS.iso, ·), j.map (NS.joliet, ·), u.map (NS.udf, ·)], t.1 ≠ ns := by
  intro t ht
  simp only [optAll, List.mem_filterMap, List.mem_cons, List.not_mem_nil, or_false, id] at ht
  obtain ⟨o, ho, hot⟩ := ht
  rcases ho with rfl | rfl | rfl
  · cases i with
    | none => cases hot
    | some p => cases hot; cases ns <;> simp_all
  · cases j with
    | none => cases hot
    | some p => cases hot; cases ns <;> simp_all
  · cases u with
    | none => cases hot
    | some p => cases hot; cases ns <;> simp_all

theorem inNs_filter_other (ns : NS) (l : List Entry) (p : Entry → Bool) (h : ∀ e ∈ l, e.ns = ns → p e = true) :
    inNs ns (l.filter p) = inNs ns l := by
  simp only [inNs, List.filter_filter]
  apply List.filter_congr
  intro e he
  by_cases hn : e.ns = ns
  · simp [hn, h e he hn]
  · simp [hn]

theorem inNs_map_other (ns : NS) (l : List Entry) (f : Entry → Entry) (hf : ∀ e, (f e).ns = e.ns)
    (h : ∀ e ∈ l, e.ns = ns → f e = e) : inNs ns (l.map f) = inNs ns l := by
  induction l with
  | nil => rfl
  | cons x xs ih =>
    have ih' := ih (fun e he => h e (by simp [he]))
    simp only [inNs, List.map_cons, List.filter_cons, hf] at ih' ⊢
    by_cases hx : x.ns = ns
    · simp only [hx, decide_true, if_true, h x (by simp) hx]
      rw [ih']
    · simp only [hx, decide_false, if_false, Bool.false_eq_true]
      exact ih'

/-- **the namespaces are independent**: an edit that names nothing in `ns` leaves the entries of `ns` as they were -/
theorem other_ns_untouched (s s' : State) (op : Op) (ns : NS) (h : step s op = some s') (ht : touches op ns = false) :
    inNs ns s'.entries = inNs ns s.entries := by
  cases op with
  | addFp a =>
    simp only [step] at h
    split at h
    · cases h
    · split at h
      · cases h
      · simp only [Option.some.injEq] at h; subst h
        simp only [inNs_append]
        rw [inNs_mk_none ns _ _ _ _ _ (targets_not_ns a.iso a.joliet a.udf ns (by cases ns <;> simpa [touches] using ht))]
        simp
  | addDir i rn j u m =>
    simp only [step] at h
    split at h
    · cases h
    · split at h
      · cases h
      · simp only [Option.some.injEq] at h; subst h
        simp only [inNs_append]
        rw [inNs_mk_none ns _ _ _ _ _ (targets_not_ns i j u ns (by cases ns <;> simpa [touches] using ht))]
        simp
  | rmFile n p => simp [touches] at ht
  | rmDir i j u =>
    simp only [step] at h
    split at h
    · cases h
    · split at h
      · cases h
      · simp only [Option.some.injEq] at h; subst h
        apply inNs_filter_other
        intro e _ hn
        have hnot := targets_not_ns i j u ns (by cases ns <;> simpa [touches] using ht)
        simp only [Bool.not_eq_true', List.any_eq_false, decide_eq_true_eq]
        intro t htm hc
        exact hnot t htm (hc.1 ▸ hn)
  | addLink ons op_ nns np rn =>
    simp only [step] at h
    cases hf : s.find ons op_ with
    | none => simp [hf] at h
    | some e =>
      simp only [hf] at h
      cases hn : e.node with
      | dir => simp [hn] at h
      | symlink t => simp [hn] at h
      | file b =>
        simp only [hn] at h
        split at h
        · cases h
        · simp only [Option.some.injEq] at h; subst h
          simp only [inNs_append]
          have : nns ≠ ns := by simpa [touches] using ht
          simp [inNs, this]
  | rmLink n p =>
    have hne : n ≠ ns := by simpa [touches] using ht
    simp only [step] at h
    cases hf : s.find n p with
    | none => simp [hf] at h
    | some e =>
      simp only [hf] at h
      cases hn : e.node with
      | dir => simp [hn] at h
      | file b =>
        simp only [hn, Option.some.injEq] at h; subst h
        simp only [State.gc]
        apply inNs_filter_other
        intro x _ hx
        simp only [Bool.not_eq_true', decide_eq_false_iff_not, not_and]
        intro hxn; exact absurd (hxn ▸ hx) hne
      | symlink t =>
        simp only [hn, Option.some.injEq] at h; subst h
        simp only [State.gc]
        apply inNs_filter_other
        intro x _ hx
        simp only [Bool.not_eq_true', decide_eq_false_iff_not, not_and]
        intro hxn; exact absurd (hxn ▸ hx) hne
  | addSymlink i rn rt j u ut =>
    simp only [step] at h
    split at h
    · cases h
    · split at h
      · cases h
      · simp only [Option.some.injEq] at h; subst h
        simp only [inNs_append]
        rw [inNs_mk_none ns _ _ _ _ _ (targets_not_ns i j u ns (by cases ns <;> simpa [touches] using ht))]
        simp
  | setHidden n p hd =>
    have hne : n ≠ ns := by simpa [touches] using ht
    simp only [step] at h
    cases hf : s.find n p with
    | none => simp [hf] at h
    | some e =>
      simp only [hf, Option.some.injEq] at h; subst h
      apply inNs_map_other
      · intro e; split <;> rfl
      · intro e _ hn
        have : ¬ (e.ns = n ∧ e.path = p) := fun hc => hne (hc.1 ▸ hn)
        simp [this]
  | reopen => simp [touches] at ht

end Pycdlib.Spec
