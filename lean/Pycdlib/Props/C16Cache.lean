/-
Props/C16Cache — the lookup caches are transparent (C06: queries in between change nothing; C16: a read does not depend
on earlier reads or queries on the same object).

  * `cache_transparent`: for every history of lookups, edits and evictions in which every edit clears the cache, and
    every starting state whose cache is coherent (the empty cache is), each lookup returns exactly what the same
    history returns without a cache, and the final trees are equal.  No bound on the history.
  * `forget_harmless`: evictions — including a `cache_clear()` issued by another PyCdlib object, which empties the
    shared table — never change an answer (they are ignored by the cache-free run and allowed anywhere above).
  * `stale_without_clear`: the hypothesis is needed — one edit that does not clear makes a later lookup return the
    record of a name that no longer exists (the shape of the seeded changes C01-m3, C02-m1, C16-n1).
-/
import Pycdlib.Model.Cache
namespace Pycdlib.Cache

theorem cached_mem (c : List (Nat × Nat)) (p r : Nat) (h : cached c p = some r) : (p, r) ∈ c := by
  unfold cached at h
  cases hf : c.find? (·.1 = p) with
  | none => simp [hf] at h
  | some x =>
    simp [hf] at h
    have hm := List.mem_of_find?_eq_some hf
    have hp := List.find?_some hf
    obtain ⟨a, b⟩ := x
    simp at hp h
    subst hp; subst h
    exact hm

theorem step_coherent (s : St) (op : Op) (h : Coherent s) (hc : ∀ f c, op = .edit f c → c = true) :
    Coherent (step s op).1 := by
  cases op with
  | lookup p =>
    simp only [step]
    cases hcp : cached s.cache p with
    | some r => simpa using h
    | none =>
      cases ht : s.tree p with
      | none => simpa using h
      | some r =>
        intro q r' hm
        simp only [List.mem_cons, Prod.mk.injEq] at hm
        rcases hm with ⟨rfl, rfl⟩ | hm
        · exact ht
        · exact h q r' hm
  | edit f c =>
    have : c = true := hc f c rfl
    subst this
    intro q r hm
    simp [step] at hm
  | forget keep =>
    intro q r hm
    simp only [step, List.mem_filter] at hm
    exact h q r hm.1

theorem step_output (s : St) (op : Op) (h : Coherent s) :
    (step s op).2 = (stepPlain s.tree op).2 ∧ (step s op).1.tree = (stepPlain s.tree op).1 := by
  cases op with
  | lookup p =>
    simp only [step, stepPlain]
    cases hcp : cached s.cache p with
    | some r => exact ⟨(h p r (cached_mem _ _ _ hcp)).symm, rfl⟩
    | none =>
      cases ht : s.tree p with
      | none => exact ⟨rfl, rfl⟩
      | some r => exact ⟨rfl, rfl⟩
  | edit f c => exact ⟨rfl, rfl⟩
  | forget keep => exact ⟨rfl, rfl⟩

/-- **the caches are transparent** -/
theorem cache_transparent (ops : List Op) : ∀ (s : St), Coherent s → AllClear ops →
    (run s ops).2 = (runPlain s.tree ops).2 ∧ (run s ops).1.tree = (runPlain s.tree ops).1 := by
  induction ops with
  | nil => intro s _ _; exact ⟨rfl, rfl⟩
  | cons op ops ih =>
    intro s hs hall
    have hc : ∀ f c, op = .edit f c → c = true := by
      intro f c he; subst he; exact hall.1
    have hall' : AllClear ops := by
      cases op with
      | lookup p => exact hall
      | edit f c => exact hall.2
      | forget k => exact hall
    obtain ⟨ho, ht⟩ := step_output s op hs
    have := ih (step s op).1 (step_coherent s op hs hc) hall'
    simp only [run, runPlain]
    rw [ht] at this
    exact ⟨by rw [ho, this.1], this.2⟩

/-- a new object (or one whose cache was just cleared) starts coherent -/
theorem empty_coherent (t : Tree) : Coherent { tree := t, cache := [] } := by
  intro p r h; cases h

theorem runPlain_append (t : Tree) (a b : List Op) :
    (runPlain t (a ++ b)).2 = (runPlain t a).2 ++ (runPlain (runPlain t a).1 b).2 ∧
    (runPlain t (a ++ b)).1 = (runPlain (runPlain t a).1 b).1 := by
  induction a generalizing t with
  | nil => exact ⟨rfl, rfl⟩
  | cons op a ih =>
    have := ih (stepPlain t op).1
    simp only [List.cons_append, runPlain, List.cons_append]
    exact ⟨by rw [this.1], this.2⟩

theorem allClear_insert_forget (pre post : List Op) (k : Nat × Nat → Bool) (h : AllClear (pre ++ post)) :
    AllClear (pre ++ .forget k :: post) := by
  induction pre with
  | nil => exact h
  | cons op pre ih =>
    cases op with
    | lookup p => exact ih h
    | edit f c => exact ⟨h.1, ih h.2⟩
    | forget k' => exact ih h

/-- **evictions and foreign clears never change an answer**: with an eviction (LRU, or `cache_clear()` issued through
another PyCdlib object — the table is shared) inserted anywhere in a history, every other step answers as before. -/
theorem forget_harmless (s : St) (hs : Coherent s) (pre post : List Op) (k : Nat × Nat → Bool)
    (h : AllClear (pre ++ post)) :
    (run s (pre ++ .forget k :: post)).2 = (runPlain s.tree pre).2 ++ none :: (runPlain (runPlain s.tree pre).1 post).2 ∧
    (run s (pre ++ post)).2 = (runPlain s.tree pre).2 ++ (runPlain (runPlain s.tree pre).1 post).2 := by
  refine ⟨?_, ?_⟩
  · rw [(cache_transparent _ s hs (allClear_insert_forget pre post k h)).1, (runPlain_append _ _ _).1]
    rfl
  · rw [(cache_transparent _ s hs h).1, (runPlain_append _ _ _).1]

/-- **the hypothesis is needed**: name 7 leads to record 1; it is looked up, removed by an edit that does not clear,
and looked up again — the cached run still answers record 1, the tree has no such name any more. -/
theorem stale_without_clear :
    let t : Tree := fun p => if p = 7 then some 1 else none
    let ops := [Op.lookup 7, Op.edit (fun _ => fun _ => none) false, Op.lookup 7]
    (run { tree := t, cache := [] } ops).2 = [some 1, none, some 1] ∧
    (runPlain t ops).2 = [some 1, none, none] := by
  refine ⟨?_, ?_⟩ <;> simp [run, runPlain, step, stepPlain, cached]

/-- non-vacuity of `cache_transparent`: a history with edits that clear, an eviction, and lookups before and after -/
example :
    let t : Tree := fun p => if p = 7 then some 1 else none
    let ops := [Op.lookup 7, Op.forget (fun _ => false), Op.lookup 7, Op.edit (fun _ => fun p => if p = 7 then some 2 else none) true, Op.lookup 7]
    AllClear ops ∧ (run { tree := t, cache := [] } ops).2 = [some 1, none, some 1, none, some 2] := by
  refine ⟨by simp [AllClear], ?_⟩
  simp [run, step, cached]

end Pycdlib.Cache
