/-
Props/C11VdOrder — where the El Torito boot record is.

  * `boot_record_at_17`: with at least one boot record, the descriptor at sector 17 is a boot record — for every number
    of PVD copies, supplementary descriptors and terminators.  (El Torito 2.0 requires it there; the library refuses to
    open an image where it is elsewhere.  Before "fix: keep the El Torito boot record at extent 17 when the PVD has
    copies" the copies came first: `old_order_moves_boot_record`.)
  * `order_length`: the descriptors occupy consecutive sectors from 16, one each.
  * `first_is_pvd`: sector 16 holds a primary descriptor.
-/
import Pycdlib.Model.VdOrder
namespace Pycdlib.VdOrder

theorem order_length (c : Counts) (h : 1 ≤ c.pvds) : (order c).length = c.pvds + c.brs + c.svds + c.vdsts := by
  simp [order]; omega

theorem first_is_pvd (c : Counts) : (order c)[0]? = some 1 := by simp [order]

theorem boot_record_at_17 (c : Counts) (h : 1 ≤ c.brs) : (order c)[sectorOf 1 - 16]? = some 0 := by
  obtain ⟨p, b, s, v⟩ := c
  simp only at h
  obtain ⟨b', rfl⟩ : ∃ b', b = b' + 1 := ⟨b - 1, by omega⟩
  simp [order, sectorOf, List.replicate_succ]

/-- the order before the repair: all PVD copies first -/
def orderOld (c : Counts) : List Nat :=
  List.replicate c.pvds 1 ++ List.replicate c.brs 0 ++ List.replicate c.svds 2 ++ List.replicate c.vdsts 255

theorem old_order_moves_boot_record : (orderOld ⟨3, 1, 1, 1⟩)[sectorOf 1 - 16]? = some 1 := by decide

/-- non-vacuity / the repaired case: three PVD copies, a boot record, Joliet, one terminator -/
example : order ⟨3, 1, 1, 1⟩ = [1, 0, 1, 1, 2, 255] := by decide

end Pycdlib.VdOrder
