/-
Props/C06 — lazy metadata is transparent.
For ANY edit semantics and ANY layout function: whatever is interleaved between the edits (force_consistency,
queries, extra writes) and whichever consistency mode is used, the final write emits the layout of the
edit state reached by the edits alone — hence identical images; and after `force` the cached (queried)
layout equals what the next write emits.
-/
import Pycdlib.Model.Lazy
namespace Pycdlib.Lazy

variable {E L Op : Type}

theorem step_coherent (apply : E → Op → E) (layout : E → L) (ac : Bool) (s : St E L) (x : Step Op)
    (h : Coherent layout s) : Coherent layout (step apply layout ac s x) := by
  unfold Coherent at *
  cases x with
  | op o => cases ac <;> simp [step]
  | force => simp [step]
  | query => simpa [step] using h
  | write =>
    simp only [step]
    split
    · simp
    · exact h

theorem step_edit (apply : E → Op → E) (layout : E → L) (ac : Bool) (s : St E L) (x : Step Op) :
    (step apply layout ac s x).edit = match x with
      | .op o => apply s.edit o
      | _ => s.edit := by
  cases x with
  | op o => cases ac <;> simp [step]
  | force => simp [step]
  | query => simp [step]
  | write => simp only [step]; split <;> rfl

theorem run_edit (apply : E → Op → E) (layout : E → L) (ac : Bool) (s : St E L) (xs : List (Step Op)) :
    (run apply layout ac s xs).edit = (edits xs).foldl apply s.edit := by
  induction xs generalizing s with
  | nil => rfl
  | cons x xs ih =>
    simp only [run]
    rw [ih, step_edit]
    cases x <;> simp [edits]

theorem run_coherent (apply : E → Op → E) (layout : E → L) (ac : Bool) (s : St E L) (xs : List (Step Op))
    (h : Coherent layout s) : Coherent layout (run apply layout ac s xs) := by
  induction xs generalizing s with
  | nil => exact h
  | cons x xs ih => exact ih _ (step_coherent apply layout ac s x h)

/-- **C06 (schedule)**: the image written at the end depends only on the edits — not on the mode, nor on any
`force` / `query` / `write` calls in between. -/
theorem schedule_irrelevant (apply : E → Op → E) (layout : E → L) (ac ac' : Bool) (s s' : St E L)
    (xs ys : List (Step Op)) (hs : Coherent layout s) (hs' : Coherent layout s')
    (he : s.edit = s'.edit) (hxy : edits xs = edits ys) :
    written layout (run apply layout ac s xs) = written layout (run apply layout ac' s' ys) := by
  have key : ∀ (t : St E L), Coherent layout t → written layout t = layout t.edit := by
    intro t ht
    unfold written
    by_cases hst : t.stale = true
    · simp [hst]
    · have : t.stale = false := by cases h : t.stale <;> simp_all
      simp [this, ht this]
  rw [key _ (run_coherent apply layout ac s xs hs), key _ (run_coherent apply layout ac' s' ys hs'),
    run_edit, run_edit, he, hxy]

/-- **C06 (query)**: after `force_consistency` what record queries report (the cache) is what the next write emits -/
theorem force_then_query (apply : E → Op → E) (layout : E → L) (ac : Bool) (s : St E L) :
    (step apply layout ac s (.force : Step Op)).cache = written layout (step apply layout ac s (.force : Step Op)) := by
  simp [step, written]

/-- the hypothesis matters: an operation that changes the edit state WITHOUT marking the cache stale breaks the
claim (this is what `add_isohybrid` did; kept as the Lean witness of that finding) -/
theorem stale_flag_needed :
    ∃ (s : St Nat Nat), ¬ Coherent (fun e : Nat => e) s ∧ written (fun e : Nat => e) s ≠ (fun e : Nat => e) s.edit :=
  ⟨{ edit := 1, cache := 0, stale := false }, by simp [Coherent], by simp [written]⟩

end Pycdlib.Lazy
