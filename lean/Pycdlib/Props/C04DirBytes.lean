/-
Props/C04DirBytes — `content_fits` for directories at byte level: the bytes the writer emits for a directory
(Model/DirBytes.render) are exactly as many blocks as the next-fit packing of its record lengths says (Model/Pack), so the
reservation that the bookkeeping machine proves sufficient (`Iso.dirs_covered`) holds the rendered directory, and
`renderDir` with the spare blocks fills `data_length` exactly.
-/
import Pycdlib.Model.DirBytes
import Pycdlib.Props.C04Iso
import Pycdlib.Props.C03
namespace Pycdlib.DirBytes
open Pycdlib

theorem nfFold_shift (bs : Nat) (ls : List Nat) : ∀ (e o k : Nat),
    nfFold bs (e + k, o) ls = ((nfFold bs (e, o) ls).1 + k, (nfFold bs (e, o) ls).2) := by
  induction ls with
  | nil => intro e o k; rfl
  | cons l ls ih =>
    intro e o k
    rw [nfFold_cons, nfFold_cons]
    unfold nfStep
    simp only
    split
    · have := ih (e + 1) l k
      rw [show e + k + 1 = e + 1 + k by omega]
      exact this
    · exact ih e (o + l) k

/-- **the rendered directory is exactly the blocks of the next-fit packing** -/
theorem render_length (bs : Nat) (recs : List Bytes) (hl : ∀ r ∈ recs, r.length ≤ bs) :
    ∀ off, off ≤ bs → (render bs off recs).length + off = (nfFold bs (1, off) (recs.map List.length)).1 * bs := by
  induction recs with
  | nil => intro off h; simp [render, nfFold, zeros_length]; omega
  | cons r rs ih =>
    intro off hoff
    have hr := hl r (by simp)
    have ih' := ih (fun x hx => hl x (by simp [hx]))
    simp only [render, List.map_cons, nfFold_cons]
    unfold nfStep
    simp only
    split
    · have h1 := ih' r.length hr
      have hs := nfFold_shift bs (rs.map List.length) 1 r.length 1
      simp only [List.length_append, zeros_length]
      rw [hs]
      simp only [Nat.add_mul, Nat.one_mul]
      omega
    · have h1 := ih' (off + r.length) (by omega)
      simp only [List.length_append]
      omega

/-- a directory whose reservation covers its packing holds its rendered records, and with the spare blocks appended the
bytes are exactly `data_length` long -/
theorem renderDir_fills (recs : List Bytes) (dataLen : Nat) (hl : ∀ r ∈ recs, r.length ≤ 2048)
    (hk : ∃ k, dataLen = k * 2048) (hfit : (nextFit 2048 (recs.map List.length)).1 * 2048 ≤ dataLen) :
    (renderDir 2048 recs (dataLen / 2048 - (nextFit 2048 (recs.map List.length)).1)).length = dataLen := by
  obtain ⟨k, rfl⟩ := hk
  have h := render_length 2048 recs hl 0 (by omega)
  unfold nextFit at hfit ⊢
  simp only [Nat.add_zero] at h
  unfold renderDir
  simp only [List.length_append, zeros_length, h]
  have hk : k * 2048 / 2048 = k := Nat.mul_div_cancel _ (by decide)
  rw [hk]
  have hle : (nfFold 2048 (1, 0) (recs.map List.length)).1 ≤ k := Nat.le_of_mul_le_mul_right hfit (by decide)
  rw [Nat.sub_mul]
  omega

/-- composition with the bookkeeping machine: in every state reachable by edits, a directory whose records have the lengths
the machine tracks is written into exactly its reservation -/
theorem reachable_dir_fills (s s' : Iso.State) (ops : List Iso.Op) (hinv : Iso.Inv s) (h : Iso.run s ops = some s')
    (d : Iso.Dir) (hd : d ∈ s'.dirs) (recs : List Bytes) (hlens : recs.map List.length = d.lens) :
    (renderDir 2048 recs (d.dataLen / 2048 - (nextFit 2048 d.lens).1)).length = d.dataLen := by
  have hc := Iso.dirs_covered s s' ops hinv h d hd
  have hok := ((Iso.run_inv s s' ops hinv h).2.1 d hd).2.2
  rw [← hlens]
  apply renderDir_fills recs d.dataLen
  · intro r hr
    have : r.length ∈ d.lens := by rw [← hlens]; exact List.mem_map.mpr ⟨r, hr, rfl⟩
    have := hok _ this; omega
  · exact hc.2
  · rw [hlens]; exact hc.1

/-- the path-table reservation of a reachable state holds the table: `path_tbl_size` bytes fit into the extents kept for ONE
table (`path_table_num_extents` blocks), for both hierarchies, after any history -/
theorem reachable_pt_fits (s s' : Iso.State) (ops : List Iso.Op) (hinv : Iso.Inv s) (h : Iso.run s ops = some s') :
    s'.pt0.size ≤ s'.pt0.extents * 2048 ∧ s'.pt1.size ≤ s'.pt1.extents * 2048 := by
  obtain ⟨h0, h1⟩ := Iso.path_tables_exact s s' ops hinv h
  unfold PathTable.Inv PathTable.cdiv at h0 h1
  constructor <;> omega

end Pycdlib.DirBytes
