/-
Model/Checksum — the checksums of pycdlib, written from their definitions (not from the tables):
  * CRC-16/CCITT (poly 0x1021, init 0, no reflection) of UDF descriptor tags  — ECMA-167 3/7.2.6, UDF 6.5
  * CRC-32 (reflected 0xEDB88320, init/xorout 0xFFFFFFFF) of GPT headers        — isohybrid.py `crc32`
  * UDF tag checksum: sum of bytes 0..15 except byte 4, mod 256                — udf.py `_compute_csum`
  * El Torito validation entry: the 16-bit words must sum to 0 mod 2^16         — eltorito.py `_checksum`
  * El Torito boot info table checksum: sum of LE 32-bit words from offset 64   — pycdlib.py:1842
Mathlib-free.
-/
import Pycdlib.Model.Bytes
namespace Pycdlib

def iter8 (f : Nat → Nat) (c : Nat) : Nat := f (f (f (f (f (f (f (f c)))))))

/-- one bit of CRC-16/CCITT: shift left, xor the polynomial when a 1 falls out -/
def crc16Shift (c : Nat) : Nat :=
  if c / 32768 % 2 = 1 then ((c * 2) ^^^ 0x1021) % 65536 else (c * 2) % 65536

/-- feed one byte, bit by bit -/
def crc16Byte (crc x : Nat) : Nat := iter8 crc16Shift (crc ^^^ (x * 256))

def crc16 (data : List Nat) : Nat := data.foldl crc16Byte 0

/-- one bit of reflected CRC-32 -/
def crc32Shift (c : Nat) : Nat :=
  if c % 2 = 1 then (c / 2) ^^^ 0xEDB88320 else c / 2

def crc32Byte (crc x : Nat) : Nat := iter8 crc32Shift (crc ^^^ x)

def crc32 (data : List Nat) : Nat := (data.foldl crc32Byte 0xFFFFFFFF) ^^^ 0xFFFFFFFF

/-- UDF tag checksum over the 16 tag bytes (byte 4 is the checksum itself) -/
def tagChecksum (tag : List Nat) : Nat := (tag.sum - tag.getD 4 0) % 256

/-- little-endian 16-bit words of a byte list (a trailing odd byte counts as a low byte) -/
def words16 : List Nat → List Nat
  | a :: b :: rest => (a + 256 * b) :: words16 rest
  | [a] => [a]
  | [] => []

/-- the value that makes the 16-bit words of `data` (with a zero checksum field) sum to 0 mod 2^16 -/
def elToritoChecksum (data : List Nat) : Nat := (65536 - (words16 data).sum % 65536) % 65536

/-- little-endian 32-bit words -/
def words32 : List Nat → List Nat
  | a :: b :: c :: d :: rest => (a + 256 * b + 65536 * c + 16777216 * d) :: words32 rest
  | _ => []

/-- boot info table checksum: 32-bit sum of the words of the (zero-padded) file from offset 64 -/
def bootInfoChecksum (file : List Nat) : Nat :=
  let padded := file ++ List.replicate ((2048 - file.length % 2048) % 2048) 0
  (words32 (padded.drop 64)).sum % 4294967296

end Pycdlib
