/-
Model/Lazy — the lazy-metadata mechanism of PyCdlib, in the abstract.
Anchors: pycdlib.py `_finish_add` / `_finish_remove` (:2997-3067: `if self._always_consistent: self._reshuffle_extents()
else: self._needs_reshuffle = True`), `force_consistency` (:5789), `_write_fp` (:2743: reshuffle when needed),
`get_record` / `walk` (queries; they do not recompute).
The edit state `E`, the layout `L`, the edit function `apply` and the from-scratch layout `layout` are
parameters: the theorems hold for ANY of them.  What they need from the code is exactly one fact per mutating
call: it marks the cached layout stale (or recomputes it) — the hypothesis the harness checks on the real
object after every call (`_needs_reshuffle`).  Mathlib-free.
-/
namespace Pycdlib.Lazy

structure St (E L : Type) where
  edit : E
  cache : L
  stale : Bool

inductive Step (Op : Type) where
  | op (o : Op)        -- a mutating API call
  | force              -- force_consistency()
  | query              -- get_record / walk / list_children: reads, never writes
  | write              -- write_fp: recompute if stale, then emit

variable {E L Op : Type}

/-- one call; `ac` = always_consistent mode -/
def step (apply : E → Op → E) (layout : E → L) (ac : Bool) (s : St E L) : Step Op → St E L
  | .op o =>
    let e := apply s.edit o
    if ac then { edit := e, cache := layout e, stale := false } else { edit := e, cache := s.cache, stale := true }
  | .force => { s with cache := layout s.edit, stale := false }
  | .query => s
  | .write => if s.stale then { s with cache := layout s.edit, stale := false } else s

def run (apply : E → Op → E) (layout : E → L) (ac : Bool) (s : St E L) : List (Step Op) → St E L
  | [] => s
  | x :: xs => run apply layout ac (step apply layout ac s x) xs

/-- what a write emits: the layout in force after the write's own recomputation -/
def written (layout : E → L) (s : St E L) : L := if s.stale then layout s.edit else s.cache

/-- the edits of a schedule, in order -/
def edits : List (Step Op) → List Op
  | [] => []
  | .op o :: xs => o :: edits xs
  | _ :: xs => edits xs

/-- cache coherence: a cache that is not marked stale is the layout of the current edit state -/
def Coherent (layout : E → L) (s : St E L) : Prop := s.stale = false → s.cache = layout s.edit

end Pycdlib.Lazy
