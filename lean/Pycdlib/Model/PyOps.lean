/-
Model/PyOps — the meaning of Python's integer operators on `Int`, fixed once for everything that
harness/py2lean.py generates.  `//` and `%` are floor division/modulo (Python semantics for any signs);
shifts take non-negative counts; `&`, `|`, `^` are defined through `Int`'s two's-complement bit operations
only for non-negative operands (the translator is only pointed at code where that holds), except the
masking idiom `x & (2^k − 1)` which is `x mod 2^k` for any sign.  Mathlib-free.
-/
namespace Pycdlib.PyOps

def pyFloorDiv (a b : Int) : Int := Int.fdiv a b
def pyMod (a b : Int) : Int := Int.fmod a b
def pyShl (a k : Int) : Int := a * 2 ^ k.toNat
def pyShr (a k : Int) : Int := Int.fdiv a (2 ^ k.toNat)

def isMask (b : Int) : Bool := 0 < b && (b.toNat + 1).isPowerOfTwo

/-- `a & b`: when `b = 2^k - 1` this is `a mod 2^k` for every `a`; otherwise both operands are non-negative -/
def pyAnd (a b : Int) : Int :=
  if 0 ≤ a then ((a.toNat &&& b.toNat : Nat) : Int)
  else Int.emod a (b + 1)          -- only reached for mask constants (`(-x) & 0xffff`)
def pyOr (a b : Int) : Int := ((a.toNat ||| b.toNat : Nat) : Int)
def pyXor (a b : Int) : Int := ((a.toNat ^^^ b.toNat : Nat) : Int)

/-- `tbl[i]` -/
def pyIndex (tbl : List Nat) (i : Int) : Int := ((tbl.getD i.toNat 0 : Nat) : Int)

/-- `enumerate(data)` -/
def pyEnumerate (data : List Int) : List (Int × Int) :=
  (List.range data.length).zip data |>.map fun (i, x) => ((i : Int), x)

end Pycdlib.PyOps
