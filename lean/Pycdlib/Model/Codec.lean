/-
Model/Codec — byte layouts of the ECMA-119 records pycdlib writes, as encoder/decoder pairs.
Anchors: dr.py `DirectoryRecord.record` (:1065, FMT '<BBLLLL7sBBBHHB') and `parse` (:186);
path_table_record.py `record_little_endian/record_big_endian/parse` (:79-:110, FMT '=BBLH').
The decoders are the record-level part of the independent reader discipline: both-endian copies must agree.
Mathlib-free.
-/
import Pycdlib.Model.Bytes
namespace Pycdlib

structure DRF where
  extent : Nat
  dataLen : Nat
  date : Bytes          -- 7 bytes
  flags : Nat
  unitSize : Nat
  gap : Nat
  seqnum : Nat
  ident : Bytes
  su : Bytes            -- XA record ++ Rock Ridge entries (may be empty)
deriving Repr, DecidableEq

/-- `33 + len_fi`, padded to even, plus the system use area, padded to even: `dr_len` -/
def DRF.bodyLen (r : DRF) : Nat := 33 + r.ident.length + (r.ident.length + 1) % 2 + r.su.length
def DRF.len (r : DRF) : Nat := r.bodyLen + r.bodyLen % 2

def DRF.wf (r : DRF) : Prop :=
  r.extent < 2 ^ 32 ∧ r.dataLen < 2 ^ 32 ∧ r.date.length = 7 ∧ r.flags < 256 ∧ r.unitSize < 256 ∧ r.gap < 256 ∧
  r.seqnum < 65536 ∧ 1 ≤ r.ident.length ∧ r.len ≤ 255

/-- `DirectoryRecord.record()` -/
def encDR (r : DRF) : Bytes :=
  [u8 r.len, 0] ++ both32 r.extent ++ both32 r.dataLen ++ r.date ++ [u8 r.flags, u8 r.unitSize, u8 r.gap] ++
  both16 r.seqnum ++ [u8 r.ident.length] ++ r.ident ++ zeros ((r.ident.length + 1) % 2) ++ r.su ++
  zeros (r.bodyLen % 2)

/-- decode one directory record, consuming fields left to right; `none` when a both-endian pair disagrees or
lengths are inconsistent.  The system use area is returned with its trailing pad byte (a reader cannot tell
it from content). -/
def decDR (b : Bytes) : Option DRF :=
  match b with
  | len :: xattr :: b2 =>
    if len.toNat ≠ b.length ∨ xattr ≠ 0 then none else
    match decBoth32 (b2.take 8), decBoth32 ((b2.drop 8).take 8) with
    | some ext, some dl =>
      let b4 := (b2.drop 8).drop 8
      let date := b4.take 7
      match b4.drop 7 with
      | fl :: us :: gap :: b5 =>
        match decBoth16 (b5.take 4), b5.drop 4 with
        | some sq, lfi :: b6 =>
          let n := lfi.toNat
          let pad := (n + 1) % 2
          if b6.length < n + pad ∨ date.length ≠ 7 then none else
          some { extent := ext, dataLen := dl, date := date, flags := fl.toNat, unitSize := us.toNat,
                 gap := gap.toNat, seqnum := sq, ident := b6.take n, su := (b6.drop n).drop pad }
        | _, _ => none
      | _ => none
    | _, _ => none
  | _ => none

structure PTRF where
  extent : Nat
  parent : Nat
  ident : Bytes
deriving Repr, DecidableEq

def PTRF.wf (r : PTRF) : Prop := r.extent < 2 ^ 32 ∧ r.parent < 65536 ∧ 1 ≤ r.ident.length ∧ r.ident.length < 256

/-- `record_little_endian` / `record_big_endian` -/
def encPTR (be : Bool) (r : PTRF) : Bytes :=
  [u8 r.ident.length, 0] ++ (if be then be32 r.extent else le32 r.extent) ++
  (if be then be16 r.parent else le16 r.parent) ++ r.ident ++ zeros (r.ident.length % 2)

def decPTR (be : Bool) (b : Bytes) : Option PTRF :=
  match b with
  | ld :: xattr :: rest =>
    let n := ld.toNat
    if xattr ≠ 0 ∨ rest.length ≠ 4 + (2 + (n + n % 2)) then none else
    some { extent := if be then ofBE (rest.take 4) else ofLE (rest.take 4),
           parent := if be then ofBE ((rest.drop 4).take 2) else ofLE ((rest.drop 4).take 2),
           ident := ((rest.drop 4).drop 2).take n }
  | _ => none

end Pycdlib
