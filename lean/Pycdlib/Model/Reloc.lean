/-
Model/Reloc — the identifier a relocated directory gets inside the relocation directory.
Anchor: pycdlib.py `add_directory`, the `while True: for child in self._rr_moved_record.children: ... else: break` loop:
the directory keeps its identifier unless one of the children has it; then NAME000, NAME001, ... are tried, each one
compared with ALL children again, until one is free.
Mathlib-free.
-/
import Pycdlib.Model.Tools
namespace Pycdlib.Reloc
open Pycdlib.Tools

/-- the loop with `fuel` rounds left: `cur` is the candidate, `idx` the next number (`none`: fuel exhausted) -/
def relocName (children : List (List Char)) (name : List Char) : Nat → Nat → List Char → Option (List Char)
  | 0, _, _ => none
  | fuel + 1, idx, cur =>
    if cur ∈ children then relocName children name fuel (idx + 1) (name ++ fmt3 idx) else some cur

/-- relocating `k` directories that all have the identifier `name`, one after the other, into a relocation directory
that already holds `children` -/
def relocMany (name : List Char) : Nat → List (List Char) → Option (List (List Char))
  | 0, ch => some ch
  | k + 1, ch =>
    match relocName ch name (ch.length + 2) 0 name with
    | some c => relocMany name k (ch ++ [c])
    | none => none

end Pycdlib.Reloc
