/-
Model/Bytes — ECMA-119 section 7 integer encodings and small byte helpers.
Anchors: pycdlib/utils.py:44-92 (swab_16bit, swab_32bit, ceiling_div), and every
`struct.pack('<H' | '>H' | '<L' | '>L' | '=B')` use in dr.py / headervd.py / path_table_record.py.
Mathlib-free (linked into the driver).
-/
namespace Pycdlib

abbrev Bytes := List UInt8

def u8 (n : Nat) : UInt8 := UInt8.ofNat (n % 256)

/-- 7.2.1 / 7.3.1: little-endian, `k` bytes. -/
def leN : Nat → Nat → Bytes
  | 0, _ => []
  | k+1, n => u8 n :: leN k (n / 256)

/-- 7.2.2 / 7.3.2: big-endian, `k` bytes. -/
def beN (k n : Nat) : Bytes := (leN k n).reverse

def ofLE : Bytes → Nat
  | [] => 0
  | b :: bs => b.toNat + 256 * ofLE bs

def ofBE (bs : Bytes) : Nat := ofLE bs.reverse

def le16 (n : Nat) : Bytes := leN 2 n
def be16 (n : Nat) : Bytes := beN 2 n
def le32 (n : Nat) : Bytes := leN 4 n
def be32 (n : Nat) : Bytes := beN 4 n
/-- 7.2.3 both-endian 16 bit -/
def both16 (n : Nat) : Bytes := le16 n ++ be16 n
/-- 7.3.3 both-endian 32 bit -/
def both32 (n : Nat) : Bytes := le32 n ++ be32 n

/-- decode a 7.2.3 field: `none` unless both copies agree (independent-reader discipline). -/
def decBoth16 (bs : Bytes) : Option Nat :=
  if bs.length = 4 ∧ ofLE (bs.take 2) = ofBE (bs.drop 2) then some (ofLE (bs.take 2)) else none

def decBoth32 (bs : Bytes) : Option Nat :=
  if bs.length = 8 ∧ ofLE (bs.take 4) = ofBE (bs.drop 4) then some (ofLE (bs.take 4)) else none

/-- `utils.swab_16bit` on an in-range value. -/
def swab16 (x : Nat) : Nat := ofLE (be16 x)
def swab32 (x : Nat) : Nat := ofLE (be32 x)

/-- `utils.ceiling_div` for non-negative numerator, positive denominator (`-(-n // d)`). -/
def ceilDiv (n d : Nat) : Nat := (n + d - 1) / d

def zeros (n : Nat) : Bytes := List.replicate n 0

/-- right-pad with `c` to `n` bytes (callers check the length first, as the code does). -/
def padTo (bs : Bytes) (n : Nat) (c : UInt8) : Bytes := bs ++ List.replicate (n - bs.length) c

def hexDigit (n : Nat) : Char :=
  if n < 10 then Char.ofNat (48 + n) else Char.ofNat (87 + n)

def toHex (bs : Bytes) : String :=
  String.ofList (bs.flatMap fun b => [hexDigit (b.toNat / 16), hexDigit (b.toNat % 16)])

/-- protocol form: `-` for the empty string -/
def hexs (bs : Bytes) : String := if bs.isEmpty then "-" else toHex bs

def hexVal (c : Char) : Option Nat :=
  if '0' ≤ c ∧ c ≤ '9' then some (c.toNat - 48)
  else if 'a' ≤ c ∧ c ≤ 'f' then some (c.toNat - 87)
  else if 'A' ≤ c ∧ c ≤ 'F' then some (c.toNat - 55)
  else none

def ofHexAux : List Char → Bytes → Option Bytes
  | [], acc => some acc.reverse
  | [_], _ => none
  | a :: b :: rest, acc =>
    match hexVal a, hexVal b with
    | some x, some y => ofHexAux rest (u8 (16 * x + y) :: acc)
    | _, _ => none

/-- `-` denotes the empty byte string in the line protocol. -/
def ofHex (s : String) : Option Bytes :=
  if s = "-" then some [] else ofHexAux s.toList []

end Pycdlib
