/-
Model/Err — Python exceptions as values.  `py k` is an *undocumented* failure (ValueError,
IndexError, struct.error, ...) escaping from pycdlib; theorems about refusal state that it never occurs.
-/
namespace Pycdlib

inductive Err where
  | invalidInput
  | invalidISO
  | internalError
  | py (kind : String)
deriving Repr, DecidableEq

def Err.token : Err → String
  | .invalidInput => "invalidInput"
  | .invalidISO => "invalidISO"
  | .internalError => "internalError"
  | .py k => "py:" ++ k

def resToken {α} : Except Err α → String
  | .ok _ => "ok"
  | .error e => e.token

end Pycdlib
