/-
Model/InPlace — what `modify_file_in_place` writes into the opened image file, as a list of (byte offset, length).
Anchor: pycdlib.py `modify_file_in_place`: the sector-count test; then, in this order, every copy of the PVD, the Joliet
and the enhanced volume descriptor, the new file data at the file's extent, one zero byte at the end of its last
sector when the data does not fill it (`utils.zero_pad`), the boot info table at offset 8 of the file when it has one,
and for every record linked to the file's inode its own bytes: a directory record at the offset derived from the cached
packing state of its parent (`extents_to_here`, `offset_to_here`, `dr_len`), a UDF File Entry at its extent; El Torito
catalog entries are skipped.
Mathlib-free.
-/
namespace Pycdlib.InPlace

inductive Rec where
  | dir (parentExtent extentsToHere offsetToHere drLen : Nat)
  | udf (extent feLen : Nat)
  | boot
deriving Repr, DecidableEq

structure In where
  pvds : List Nat
  joliet : Option Nat
  enhanced : Option Nat
  fileExtent : Nat
  oldLen : Nat
  newLen : Nat
  recs : List Rec
  bootInfo : Bool
deriving Repr

def sectors (n : Nat) : Nat := (n + 2047) / 2048

abbrev Write := Nat × Nat      -- (offset, length)

def recWrite : Rec → List Write
  | .dir p e o l => [((p + e - 1) * 2048 + o - l, l)]
  | .udf x n => [(x * 2048, n)]
  | .boot => []

def optVd : Option Nat → List Write
  | some x => [(x * 2048, 2048)]
  | none => []

/-- `none` = refused (the number of sectors would change) -/
def plan (i : In) : Option (List Write) :=
  if sectors i.oldLen ≠ sectors i.newLen then none
  else some (
    i.pvds.map (fun x => (x * 2048, 2048)) ++ optVd i.joliet ++ optVd i.enhanced ++
    (if i.newLen > 0 then [(i.fileExtent * 2048, i.newLen)] else []) ++
    (if i.newLen % 2048 ≠ 0 then [(i.fileExtent * 2048 + sectors i.newLen * 2048 - 1, 1)] else []) ++
    (if i.bootInfo then [(i.fileExtent * 2048 + 8, 56)] else []) ++
    i.recs.flatMap recWrite)

/-- the sectors a write touches lie in `[first, first + count)` -/
def within (w : Write) (first count : Nat) : Prop := first * 2048 ≤ w.1 ∧ w.1 + w.2 ≤ (first + count) * 2048

/-- cached packing state of a record is sound: it ends inside its sector and starts at or after the sector's start -/
def RecOk : Rec → Prop
  | .dir _ e o l => 1 ≤ e ∧ l ≤ o ∧ o ≤ 2048
  | .udf _ n => n ≤ 2048
  | .boot => True

/-- the sector a record lives in -/
def recSector : Rec → Option Nat
  | .dir p e _ _ => some (p + e - 1)
  | .udf x _ => some x
  | .boot => none

end Pycdlib.InPlace
