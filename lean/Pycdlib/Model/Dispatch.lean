/-
Model/Dispatch — maps protocol requests to model functions (test infrastructure; no theorem depends on it).
-/
import Pycdlib.Model.Names
import Pycdlib.Model.Mangle
import Pycdlib.Model.Dates
import Pycdlib.Model.Stream
import Pycdlib.Model.Reader
import Pycdlib.Model.ReaderUdf
import Pycdlib.Model.Spec
import Pycdlib.Model.Pack
import Pycdlib.Model.Layout
import Pycdlib.Model.Checksum
import Pycdlib.Model.Codec
import Pycdlib.Model.Susp
import Pycdlib.Model.Unicode
import Pycdlib.Model.Udf
import Pycdlib.Model.Boot
import Pycdlib.Model.BootParse
import Pycdlib.Model.Hybrid
import Pycdlib.Model.Tools
import Pycdlib.Model.Atomic
import Pycdlib.Model.Cache
import Pycdlib.Model.Extents
import Pycdlib.Model.UdfNames
import Pycdlib.Model.InPlace
import Pycdlib.Model.VdOrder
import Pycdlib.Model.Reloc
import Pycdlib.Model.Iso
import Pycdlib.Model.DirBytes
import Pycdlib.Model.PtBytes
import Pycdlib.Model.Ranges
import Pycdlib.Model.PtOrder
namespace Pycdlib

def parseKid (x : String) : Option (Nat × List Nat) :=
  match x.splitOn ":" with
  | [d, cs] => do pure ((← d.toNat?), (← (cs.splitOn ".").mapM (·.toNat?)))
  | _ => none

def parseKids (s : String) : Option (List (Nat × List Nat)) :=
  if s = "-" then some [] else (s.splitOn ",").mapM parseKid

def parseCps (s : String) : Option (List Nat) :=
  if s = "-" then some [] else (s.splitOn ",").mapM String.toNat?

def cpsToString (l : List Char) : String :=
  if l.isEmpty then "-" else ",".intercalate (l.map fun c => toString c.toNat)

/-- `cp:u+u,cp:u` — the string together with Python's per-character upper-casing. -/
def parseUpperPairs (s : String) : Option (List (Char × List Char)) :=
  if s = "-" then some [] else
  (s.splitOn ",").mapM fun item =>
    match item.splitOn ":" with
    | [c, us] => do
      let c ← c.toNat?
      let us ← (us.splitOn "+").mapM String.toNat?
      pure (Char.ofNat c, us.map Char.ofNat)
    | _ => none

def upperOf (pairs : List (Char × List Char)) : Upper := fun c =>
  match pairs.find? (fun p => p.1 = c) with
  | some p => p.2
  | none => [c]

def parseAtomicPath (s : String) : Option Atomic.Path :=
  if s = "" then some [] else (s.splitOn "/").mapM fun n => (n.splitOn ".").mapM String.toNat?

def parseAtomicNs (s : String) : Option (Option Atomic.Ns) :=
  if s = "0" then some none
  else if s = "-" then some (some [])
  else do
    let es ← (s.splitOn ",").mapM fun e =>
      match e.toList with
      | 'd' :: r => (parseAtomicPath (String.ofList r)).map fun p => (⟨p, true⟩ : Atomic.Entry)
      | 'f' :: r => (parseAtomicPath (String.ofList r)).map fun p => (⟨p, false⟩ : Atomic.Entry)
      | _ => none
    pure (some es)

def parseAtomicOpt (s : String) : Option (Option Atomic.Path) :=
  if s = "-" then some none else (parseAtomicPath s).map some

def dispatchPure (toks : List String) : Option String :=
  match toks with
  | ["chkfile", lvl, hx] => do
    let l ← lvl.toNat?; let b ← ofHex hx
    pure (resToken (checkIsoFilename l b))
  | ["chkdir", lvl, hx] => do
    let l ← lvl.toNat?; let b ← ofHex hx
    pure (resToken (checkIsoDirectory l b))
  | ["lvlfile", hx] => do let b ← ofHex hx; pure (toString (levelFromFilename b))
  | ["lvldir", hx] => do let b ← ofHex hx; pure (toString (levelFromDirectory b))
  | ["depth", hx] => do let b ← ofHex hx; pure (resToken (checkPathDepth b))
  | ["mangle", lvl, kind, pairs] => do
    let l ← lvl.toNat?
    let ps ← parseUpperPairs pairs
    let s := ps.map (·.1)
    let up := upperOf ps
    if kind = "dir" then pure (cpsToString (mangleDir up s l))
    else
      let (b, e) := mangleFile up s l
      pure (cpsToString b ++ " " ++ cpsToString e)
  | ["civil", t] => do let t ← t.toInt?; pure (civil t).show
  | ["dates", t, off, flags] => do
    let t ← t.toInt?; let off ← off.toInt?; let fl ← flags.toNat?
    pure s!"{gmtoffset (civil (t + off)) (civil t)} {toHex (drDate t off)} {toHex (vdDate t off)} {toHex (udfDate t off)} {toHex (tfRecord fl t off)}"
  | ["nfscan", bs, lens] => do
    let bs ← bs.toNat?
    let ls ← parseCps lens
    let sc := nfScan bs (1, 0) ls
    let wp := writerPlace bs 0 0 ls
    pure (" ".intercalate (sc.map fun (a, b) => s!"{a}:{b}") ++ " | " ++ " ".intercalate (wp.map fun (a, b) => s!"{a}:{b}"))
  | ["encdr", ext, dl, date, fl, us, gap, sq, ident, su] => do
    let r : DRF := { extent := ← ext.toNat?, dataLen := ← dl.toNat?, date := ← ofHex date, flags := ← fl.toNat?,
                     unitSize := ← us.toNat?, gap := ← gap.toNat?, seqnum := ← sq.toNat?, ident := ← ofHex ident,
                     su := ← ofHex su }
    let enc := encDR r
    let back := match decDR enc with
      | some d => if d.extent = r.extent ∧ d.dataLen = r.dataLen ∧ d.ident = r.ident ∧ d.flags = r.flags then "rt-ok" else "rt-diff"
      | none => "rt-none"
    pure (toHex enc ++ " " ++ back)
  | ["encptr", be, ext, par, ident] => do
    let r : PTRF := { extent := ← ext.toNat?, parent := ← par.toNat?, ident := ← ofHex ident }
    pure (toHex (encPTR (be = "1") r))
  | ["rrnew", first, ver, name, target, cl, re, pl, cur] => do
    let v ← if ver = "1.09" then some Susp.Ver.v109 else if ver = "1.10" then some .v110 else if ver = "1.12" then some .v112 else none
    let nm ← ofHex name
    let tg ← if target = "none" then some none else (ofHex target).map some
    let showEnt : Susp.Ent → String := fun e => match e with
      | .fixed sg l => s!"{sg}:{l}"
      | .nm c p => s!"NM:{if c then 1 else 0}:{hexs p}"
      | .sl c cs => s!"SL:{if c then 1 else 0}:" ++ "+".intercalate (cs.map fun k => s!"{k.flags}.{hexs k.data}")
    match Susp.rrNew (first = "1") v nm tg (cl = "1") (re = "1") (pl = "1") (← cur.toNat?) with
    | none => pure "internalError"
    | some r =>
      let nmAll := Susp.nmName (r.dr ++ r.ce)
      let tgt := Susp.slTarget (Susp.allComps (r.dr ++ r.ce))
      pure (s!"{r.drLen} {if r.hasCE then 1 else 0} {r.ceLen} | " ++ " ".intercalate (r.dr.map showEnt) ++ " | " ++
        " ".intercalate (r.ce.map showEnt) ++ " | " ++ hexs nmAll ++ " " ++ hexs tgt)
  | ["ceadd", bs, lens] => do
    let bs ← bs.toNat?
    let ls ← parseCps lens
    let (_, out) := ls.foldl (fun (st : List Susp.Block × List String) l =>
      let (added, i, off, blocks) := Susp.addCe bs st.1 l
      (blocks, st.2 ++ [s!"{if added then 1 else 0}:{i}:{off}"])) ([], [])
    pure (" ".intercalate out)
  | ["utf16", cps] => do
    let l ← parseCps cps
    pure (hexs (utf16be l) ++ " " ++ hexs (utf8s l) ++ " " ++ hexs (Reader.utf16beToUtf8 (utf16be l)))
  | ["udftag", ident, ver, serial, loc, body] => do
    let b ← ofHex body
    let t := Udf.tagBytes (← ident.toNat?) (← ver.toNat?) (← serial.toNat?) (← loc.toNat?) (b.map (·.toNat))
    pure (toHex (t.map fun n => UInt8.ofNat n) ++ " " ++ toString (Udf.tagValid t (b.map (·.toNat)) (← ident.toNat?) (← loc.toNat?)))
  | ["fidassign", lens] => do
    let ls ← parseCps lens
    pure (" ".intercalate ((Udf.fidAssign 2048 0 0 ls).map toString) ++ " | " ++ toString (Udf.fidSectors ls))
  | "eltcat" :: platform :: ents => do
    let parseEnt : String → Option (Nat × Boot.Entry) := fun t =>
      match t.splitOn ":" with
      | [p, b, m, sg, sy, c, r] => do
        pure (← p.toNat?, { bootable := b = "1", media := ← m.toNat?, loadSeg := ← sg.toNat?, sysType := ← sy.toNat?,
                            count := ← c.toNat?, rba := ← r.toNat? })
      | _ => none
    let es ← ents.mapM parseEnt
    match es with
    | [] => none
    | (_, ini) :: secs =>
      pure (toHex ((Boot.catalogBytes (← platform.toNat?) ini secs).map fun n => UInt8.ofNat n))
  | ["bit", pvd, fsec, olen, hx] => do
    let b ← ofHex hx
    pure (toHex ((Boot.bootInfoTable (← pvd.toNat?) (← fsec.toNat?) (← olen.toNat?) (b.map (·.toNat))).map fun n => UInt8.ofNat n))
  | "inplace" :: pvds :: jol :: enh :: ext :: old :: new :: bit :: recs => do
    -- pvds: extents joined by ','; jol / enh: extent or '-'; recs: d:<parent>:<extents>:<offset>:<len>, u:<extent>:<len>, b
    let optN : String → Option (Option Nat) := fun t => if t = "-" then some none else (t.toNat?).map some
    let parseRec : String → Option InPlace.Rec := fun t =>
      match t.splitOn ":" with
      | ["d", a, b, c, d] => do pure (.dir (← a.toNat?) (← b.toNat?) (← c.toNat?) (← d.toNat?))
      | ["u", a, b] => do pure (.udf (← a.toNat?) (← b.toNat?))
      | ["b"] => some .boot
      | _ => none
    let i : InPlace.In := { pvds := ← (pvds.splitOn ",").mapM (·.toNat?), joliet := ← optN jol, enhanced := ← optN enh,
                            fileExtent := ← ext.toNat?, oldLen := ← old.toNat?, newLen := ← new.toNat?,
                            recs := ← recs.mapM parseRec, bootInfo := bit = "1" }
    match InPlace.plan i with
    | none => pure "refused"
    | some ws => pure (" ".intercalate (ws.map fun w => s!"{w.1}:{w.2}"))
  | ["relocmany", name, k] => do
    -- identifiers of k relocated directories that all are called `name`, in the order they get them
    match Reloc.relocMany name.toList (← k.toNat?) [] with
    | some l => pure (".".intercalate (l.map String.ofList))
    | none => pure "none"
  | ["ptorder", root, kids] => do
    -- directory hierarchy `d:c1.c2,d:c1` (sub-directories in recorded order): the path table as (directory, parent number)
    let r ← root.toNat?
    let m ← parseKids kids
    let children : Nat → List Nat := fun d => match m.find? (fun e => e.1 == d) with
      | some e => e.2
      | none => []
    let n := (m.map fun e => e.2.length).sum + 1
    pure (",".intercalate ((PtOrder.table children n r).map fun e => s!"{e.1}:{e.2}"))
  | ["claims", ds] => do
    -- directories (first sector : sectors) in the order the walk meets them
    let l ← (ds.splitOn ",").mapM fun x =>
      match x.splitOn ":" with
      | [s, n] => do pure ((← s.toNat?), (← n.toNat?))
      | _ => none
    match Ranges.claimAll [] l with
    | none => pure "refused"
    | some rs => pure ("ranges " ++ ",".intercalate (rs.map fun r => s!"{r.1}-{r.2}"))
  | ["ptext", be, img, recs] => do
    -- one path table as written vs the model writer, and the model reader on the written bytes
    let got ← ofHex img
    let be := be = "1"
    let rs ← (recs.splitOn ",").mapM fun x =>
      match x.splitOn ":" with
      | [e, p, i] => do pure ({ extent := ← e.toNat?, parent := ← p.toNat?, ident := ← ofHex i } : PTRF)
      | _ => none
    let want := PtBytes.render be rs
    let back := PtBytes.parse be rs.length got
    pure s!"{if want == got then "render-ok" else "render-diff"} {if back == some rs then "parse-ok" else "parse-diff"}"
  | ["dirext", img, recs] => do
    -- one directory extent as written vs the model writer, and the model reader on the written bytes
    let got ← ofHex img
    let rs ← if recs = "-" then some [] else (recs.splitOn ",").mapM ofHex
    let used := (DirBytes.render 2048 0 rs).length
    if got.length < used ∨ got.length % 2048 ≠ 0 then pure s!"short used={used} have={got.length}" else
    let want := DirBytes.renderDir 2048 rs ((got.length - used) / 2048)
    let back := DirBytes.parse 2048 got.length 0 got
    pure s!"{if want == got then "render-ok" else "render-diff"} {if back == rs then "parse-ok" else "parse-diff"}"
  | "isorun" :: st :: ops => do
    -- size bookkeeping machine: state, then one token per public edit; answer: the state after every edit
    let s ← Iso.decState st
    let os ← ops.mapM Iso.decOp
    pure (s!"{if Iso.invB s && Iso.cebOkB s then "inv" else "!inv"} " ++ " ".intercalate (Iso.trace s os))
  | ["vdorder", p, b, sv, t] => do
    let c : VdOrder.Counts := { pvds := ← p.toNat?, brs := ← b.toNat?, svds := ← sv.toNat?, vdsts := ← t.toNat? }
    pure s!"{".".intercalate ((VdOrder.order c).map toString)} {if VdOrder.udfRoomForOneMore c then 1 else 0}"
  | ["udfident", stored, query] => do
    -- code points joined by '.'; answer: encoding, units of the identifier recorded for `stored`, and whether a lookup of
    -- `query` finds it
    let cps : String → Option (List Nat) := fun t => if t = "-" then some [] else (t.splitOn ".").mapM (·.toNat?)
    let n ← cps stored
    let q ← cps query
    let i := UdfNames.identOf n
    let e := match i.enc with | .latin1 => "latin1" | .utf16 => "utf16"
    pure s!"{e} {".".intercalate (i.units.map toString)} {if UdfNames.matches_ i q then 1 else 0}"
  | "addchild" :: toks => do
    -- identifiers (ranks) of the records added one after the other with allow_duplicate; the tag is the position
    let ids ← toks.mapM (·.toNat?)
    let l := (ids.zipIdx).foldl (fun acc (p : Nat × Nat) => Extents.addChild acc { ident := p.1, tag := p.2, multi := false, cont := false }) []
    pure (" ".intercalate (l.map fun r => s!"{r.ident}.{r.tag}.{if r.multi then 1 else 0}.{if r.cont then 1 else 0}"))
  | "cacherun" :: toks => do
    -- L<p> lookup, E<0|1>:<p>=<r>,... edit that sets the tree (clears or not), F forget everything
    let parseOp : String → Option Cache.Op := fun t =>
      if t.startsWith "L" then do pure (.lookup (← (t.drop 1).toString.toNat?))
      else if t = "F" then some (.forget fun _ => false)
      else if t.startsWith "E" then
        match (t.drop 1).toString.splitOn ":" with
        | [c, m] => do
          let pairs : List (Nat × Nat) ← (if m = "" then some [] else (m.splitOn ",").mapM fun (kv : String) =>
            match kv.splitOn "=" with
            | [k, v] => do pure ((← k.toNat?), (← v.toNat?))
            | _ => none)
          pure (.edit (fun _ => fun q => (pairs.find? (·.1 = q)).map (·.2)) (c = "1"))
        | _ => none
      else none
    let ops ← toks.mapM parseOp
    let outs := (Cache.run { tree := fun _ => none, cache := [] } ops).2
    let shown := (outs.zip ops).filterMap fun (o, op) =>
      match op with
      | .lookup _ => some (match o with | some r => toString r | none => "-")
      | _ => none
    pure (",".intercalate shown)
  | ["eltparse", hx] => do
    let b ← ofHex hx
    let ent : Boot.Entry → String := fun e =>
      s!"{if e.bootable then 1 else 0},{e.media},{e.loadSeg},{e.sysType},{e.count},{e.rba}"
    match Boot.parseCatalog (b.map (·.toNat)) with
    | none => pure "bad"
    | some c =>
      let secs := c.sections.map fun s => s!"{s.indicator},{s.platform},{s.declared}[{"/".intercalate (s.entries.map ent)}]"
      pure s!"plat{c.platform} ini{ent c.initial} secs{";".intercalate secs} alone{"/".intercalate (c.standalone.map ent)}"
  | ["eltmedia", media, cnt] => do
    match Boot.mediaAndCount media (← cnt.toNat?) with
    | some (m, c) => pure s!"{m} {c}"
    | none => pure "invalidInput"
  | ["calccc", size, heads, sectors, efi] => do
    let (cc, pad) := Hybrid.calcCc (← size.toNat?) (← heads.toNat?) (← sectors.toNat?) (efi = "1")
    pure s!"{cc} {pad}"
  | ["gptgeo", size, heads, sectors, extent, count, mac] => do
    let g := Hybrid.gptGeo (← size.toNat?) (← heads.toNat?) (← sectors.toNat?) (← extent.toNat?) (← count.toNat?) (mac = "1")
    pure s!"{g.primaryLba} {g.backupLba} {g.firstUsable} {g.lastUsable} {g.primaryEntries} {g.backupEntries} {g.isoFirst} {g.isoLast} {g.efiFirst} {g.efiLast}"
  | ["mbrchs", cc, heads, sectors, offset] => do
    let (eh, es, ec, psize) := Hybrid.endFields (← cc.toNat?) (← heads.toNat?) (← sectors.toNat?) (← offset.toNat?)
    let (bh, bs, bc) := Hybrid.startChs (← offset.toNat?) (← heads.toNat?) (← sectors.toNat?)
    pure s!"{bh} {bs} {bc} {eh} {es} {ec} {psize}"
  | ["crc16", hx] => do let b ← ofHex hx; pure (toString (crc16 (b.map (·.toNat))))
  | ["crc32", hx] => do let b ← ofHex hx; pure (toString (crc32 (b.map (·.toNat))))
  | ["eltcsum", hx] => do let b ← ofHex hx; pure (toString (elToritoChecksum (b.map (·.toNat))))
  | ["bitcsum", hx] => do let b ← ofHex hx; pure (toString (bootInfoChecksum (b.map (·.toNat))))
  | "spec" :: rr :: ops => some (Spec.runProtocol (rr = "1") ops)
  | ["mm3", seed, hx] => do let b ← ofHex hx; pure (toString (Tools.mm3 (← seed.toNat?) (b.map (·.toNat))))
  | "collide" :: lvl :: isdir :: names => do
    let l ← lvl.toNat?
    let ns ← names.mapM fun h => (ofHex h).map fun b => b.map fun x => Char.ofNat x.toNat
    let (rs, _) := Tools.isoChildren Tools.asciiUpper l (isdir = "1") [] ns
    pure (" ".intercalate (rs.map fun r => match r with
      | none => "-"
      | some t => hexs (t.map fun c => UInt8.ofNat c.toNat)))
  | ["atomic", lvl, rr, xa, i, j, u, kind, pi, pj, pu] => do
    let st : Atomic.St := { iso := ← parseAtomicNs i, joliet := ← parseAtomicNs j, udf := ← parseAtomicNs u }
    let k ← (match kind with
      | "addfile" => some (Atomic.Kind.add false)
      | "adddir" => some (Atomic.Kind.add true)
      | "rmdir" => some Atomic.Kind.rmdir
      | _ => none)
    let o : Atomic.Op := { kind := k, iso := ← parseAtomicOpt pi, joliet := ← parseAtomicOpt pj, udf := ← parseAtomicOpt pu }
    let L := Atomic.libLegal (← lvl.toNat?) (rr = "1") (xa = "1")
    let r := Atomic.stepChecked L st o
    let old := Atomic.stepInterleaved L st o
    let sz (s : Atomic.St) : String :=
      s!"{(s.iso.map List.length).getD 0}/{(s.joliet.map List.length).getD 0}/{(s.udf.map List.length).getD 0}"
    pure (match r.2 with
      | none => s!"ok {sz r.1}"
      | some c => s!"refused:{reprStr c} {sz r.1} interleaved-would-leave:{sz old.1}")
  | ["jolietpath", root, name] => do
    let r ← parseCps root; let n ← parseCps name
    let comps := Tools.jolietComponents ((r.map Char.ofNat).splitOn '/') (n.map Char.ofNat)
    pure (cpsToString (comps.flatMap fun c => '/' :: c))
  | _ => none

def dispatchIO (toks : List String) : IO (Option String) := do
  match toks with
  | "stream" :: path :: streams :: ops =>
    let img ← IO.FS.readBinFile path
    match parseStreams streams, ops.mapM parseSOp with
    | some ss, some os =>
      let outs := runW { img := img.toList, pos := 0, streams := ss } os
      pure (some (" ".intercalate (outs.map SOut.show)))
    | _, _ => pure none
  | ["read", path] =>
    let img ← IO.FS.readBinFile path
    let (_, rep) := (do Reader.readIso { d := img }; Reader.readUdf { d := img } : Reader.RM Unit).run {}
    let allocs := rep.allocs.toList.map fun (l, a, b) => s!"{l}@{a}+{b}"
    pure (some ("errs=" ++ "|".intercalate rep.errs.toList ++ " ;; info=" ++ "|".intercalate rep.info.toList ++
      " ;; allocs=" ++ "|".intercalate allocs ++ " ;; entries=" ++ "|".intercalate rep.entries.toList))
  | ["copy", left, bs, hx] =>
    match left.toNat?, bs.toNat?, ofHex hx with
    | some l, some b, some src => pure (some (hexs (copyData (l + 1) l b src)))
    | _, _, _ => pure none
  | _ => pure none

def dispatch (toks : List String) : IO String := do
  if let some s ← dispatchIO toks then return s
  match dispatchPure toks with
  | some s => pure s
  | none => pure "bad-op"

end Pycdlib
