/-
Model/Dates — broken-down time and the date encodings.
Anchors: utils.py `gmtoffset_from_tm` (:211); dates.py `DirectoryRecordDate.new/record/parse` (:58),
`VolumeDescriptorDate.new/record/parse` (:147); udf.py `UDFTimestamp.new/record/parse` (:994);
rockridge.py `RRTFRecord` (:1868, delegates to the two date classes).

Environment (parameters; checked by the S-tz stream on every run): `time.gmtime t = civil t` and
`time.localtime t = civil (t + off)` where `off` is the zone's UTC offset in seconds at `t`.
The calendar is the 4-year-cycle calendar, which coincides with the Gregorian one from 1901-03-01 to
2100-02-28 (the property quantifies over 1970..2099); outside that window `civil` is *not* a model of
`time.gmtime` and the harness never sends such instants.
All arithmetic on `Int`; `/` and `%` are floor division for the positive literal divisors used here.
Mathlib-free.
-/
import Pycdlib.Model.Bytes
namespace Pycdlib

/-- days before month `m` (1..12) in a (leap) year -/
def cumDays (leap : Bool) (m : Int) : Int :=
  let l : Int := if leap then 1 else 0
  if m ≤ 1 then 0 else if m = 2 then 31 else if m = 3 then 59 + l else if m = 4 then 90 + l
  else if m = 5 then 120 + l else if m = 6 then 151 + l else if m = 7 then 181 + l
  else if m = 8 then 212 + l else if m = 9 then 243 + l else if m = 10 then 273 + l
  else if m = 11 then 304 + l else 334 + l

/-- month (1..12) containing zero-based day-of-year `doy` -/
def monthOfDoy (leap : Bool) (doy : Int) : Int :=
  let l : Int := if leap then 1 else 0
  if doy < 31 then 1 else if doy < 59 + l then 2 else if doy < 90 + l then 3 else if doy < 120 + l then 4
  else if doy < 151 + l then 5 else if doy < 181 + l then 6 else if doy < 212 + l then 7
  else if doy < 243 + l then 8 else if doy < 273 + l then 9 else if doy < 304 + l then 10
  else if doy < 334 + l then 11 else 12

/-- (year, zero-based day of year) of day number `d` (days since 1970-01-01) -/
def yearDoy (d : Int) : Int × Int :=
  let n := d + 731            -- days since 1968-01-01 (a leap year)
  let q := n / 1461
  let r := n % 1461
  if r < 366 then (1968 + 4 * q, r) else (1968 + 4 * q + (r - 366) / 365 + 1, (r - 366) % 365)

def isLeap (y : Int) : Bool := y % 4 = 0

/-- day number of Jan 1st of year `y` -/
def daysOfYear (y : Int) : Int :=
  let k := y - 1968
  let q := k / 4
  let yi := k % 4
  q * 1461 + (if yi = 0 then 0 else 366 + (yi - 1) * 365) - 731

/-- day number of the civil date -/
def daysOfYmd (y m d : Int) : Int := daysOfYear y + cumDays (isLeap y) m + (d - 1)

/-- the fields of `time.struct_time` the library reads -/
structure Tm where
  year : Int
  mon : Int
  mday : Int
  hour : Int
  min : Int
  sec : Int
  yday : Int
deriving Repr, DecidableEq

/-- `time.gmtime(t)` for integral `t` -/
def civil (t : Int) : Tm :=
  let days := t / 86400
  let s := t % 86400
  let (y, doy) := yearDoy days
  let m := monthOfDoy (isLeap y) doy
  { year := y, mon := m, mday := doy - cumDays (isLeap y) m + 1,
    hour := s / 3600, min := s % 3600 / 60, sec := s % 60, yday := doy + 1 }

/-- `utils.gmtoffset_from_tm` on the two broken-down times (`//` is floor division). -/
def gmtoffset (loc gm : Tm) : Int :=
  let tmpmin := loc.min - gm.min
  let tmphour := loc.hour - gm.hour
  let tmpyday := loc.yday - gm.yday
  let tmpyear := loc.year - gm.year
  let tmpyday := if tmpyear ≠ 0 then tmpyear else tmpyday
  (tmpmin + 60 * (tmphour + 24 * tmpyday)) / 15

/-- the instant denoted by local fields plus an offset from GMT in seconds -/
def instantOf (year mon mday hour min sec offSeconds : Int) : Int :=
  daysOfYmd year mon mday * 86400 + hour * 3600 + min * 60 + sec - offSeconds

/-- signed byte -/
def s8 (n : Int) : UInt8 := UInt8.ofNat (n % 256).toNat
def unS8 (b : UInt8) : Int := if b.toNat < 128 then (b.toNat : Int) else (b.toNat : Int) - 256

/-- `DirectoryRecordDate.new(tm)` + `record()`: 7 bytes. `off` = zone offset in seconds at `t`. -/
def drDate (t off : Int) : Bytes :=
  let loc := civil (t + off)
  let g := gmtoffset loc (civil t)
  [u8 (loc.year - 1900).toNat, u8 loc.mon.toNat, u8 loc.mday.toNat, u8 loc.hour.toNat,
   u8 loc.min.toNat, u8 loc.sec.toNat, s8 g]

/-- what a 7-byte directory-record date denotes (ECMA-119 9.1.5) -/
def decDrDate (b : Bytes) : Option Int :=
  match b with
  | [y, mo, d, h, mi, s, g] =>
    some (instantOf ((y.toNat : Int) + 1900) mo.toNat d.toNat h.toNat mi.toNat s.toNat (900 * unS8 g))
  | _ => none

def digit (n i : Nat) : UInt8 := u8 (48 + n / 10 ^ i % 10)
def digits2 (n : Nat) : Bytes := [digit n 1, digit n 0]
def digits4 (n : Nat) : Bytes := [digit n 3, digit n 2, digit n 1, digit n 0]

/-- `VolumeDescriptorDate.new(tm)` (tm ≠ 0) + `record()`: 17 bytes `YYYYMMDDHHMMSS00` + offset byte. -/
def vdDate (t off : Int) : Bytes :=
  let loc := civil (t + off)
  let g := gmtoffset loc (civil t)
  digits4 loc.year.toNat ++ digits2 loc.mon.toNat ++ digits2 loc.mday.toNat ++
  digits2 loc.hour.toNat ++ digits2 loc.min.toNat ++ digits2 loc.sec.toNat ++ [48, 48] ++ [s8 g]

/-- `VolumeDescriptorDate.new(0.0)` -/
def vdDateEmpty : Bytes := List.replicate 16 48 ++ [0]

def dv (b : UInt8) : Int := (b.toNat : Int) - 48

/-- what a 17-byte volume-descriptor date denotes (ECMA-119 8.4.26.1) -/
def decVdDate (b : Bytes) : Option Int :=
  match b with
  | [y3, y2, y1, y0, m1, m0, d1, d0, h1, h0, i1, i0, s1, s0, _, _, g] =>
    some (instantOf (1000 * dv y3 + 100 * dv y2 + 10 * dv y1 + dv y0) (10 * dv m1 + dv m0) (10 * dv d1 + dv d0)
      (10 * dv h1 + dv h0) (10 * dv i1 + dv i0) (10 * dv s1 + dv s0) (900 * unS8 g))
  | _ => none

/-- `UDFTimestamp.new` + `record()`: 12 bytes; the zone field is a 12-bit two's complement count of
*minutes* (ECMA-167 1/7.3.1), type 1 (local time) in the top nibble. -/
def udfDate (t off : Int) : Bytes :=
  let loc := civil (t + off)
  let tz := gmtoffset loc (civil t) * 15
  let tmp := (tz % 65536).toNat
  [u8 (tmp % 256), u8 (tmp / 256 % 16 + 16)] ++ le16 loc.year.toNat ++
  [u8 loc.mon.toNat, u8 loc.mday.toNat, u8 loc.hour.toNat, u8 loc.min.toNat, u8 loc.sec.toNat, 0, 0, 0]

/-- what a 12-byte UDF timestamp denotes -/
def decUdfDate (b : Bytes) : Option Int :=
  match b with
  | [tzlo, tt, ylo, yhi, mo, d, h, mi, s, _, _, _] =>
    let raw : Int := ((tt.toNat % 16 * 256 + tzlo.toNat : Nat) : Int)
    let tz := if raw ≥ 2048 then raw - 4096 else raw
    some (instantOf ((ylo.toNat : Int) + 256 * yhi.toNat) mo.toNat d.toNat h.toNat mi.toNat s.toNat (60 * tz))
  | _ => none

/-- the time stamps of `RRTFRecord.new(time_flags, t)`: one per flag bit 0..6, long form iff bit 7 -/
def tfStamps (flags : Nat) (t off : Int) : List Bytes :=
  let one := if flags / 128 % 2 = 1 then vdDate t off else drDate t off
  List.replicate ((List.range 7).filter (fun i => flags / 2 ^ i % 2 = 1)).length one

/-- `RRTFRecord.record()` -/
def tfRecord (flags : Nat) (t off : Int) : Bytes :=
  let st := tfStamps flags t off
  [84, 70, u8 (5 + st.flatten.length), 1, u8 flags] ++ st.flatten

def Tm.show (c : Tm) : String :=
  s!"{c.year} {c.mon} {c.mday} {c.hour} {c.min} {c.sec} {c.yday}"

end Pycdlib
