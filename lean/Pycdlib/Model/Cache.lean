/-
Model/Cache — the path-lookup caches (`functools.lru_cache` on `PyCdlib._find_iso_record`, `_find_rr_record`,
`_find_joliet_record`, `_find_udf_record`).
Anchors: pycdlib.py the four `@functools.lru_cache(maxsize=256)` decorators; every place that changes a directory's
children calls `.cache_clear()` on them (`_remove_child_from_dr`, `_add_child_to_dr`, `_rm_udf_file_ident`,
`_rm_joliet_dir`, `rm_directory`, `_initialize`, ...).
What matters for the properties (C06 "querying in between changes nothing", C16 "reads regardless of other reads or
queries"): a lookup through the cache returns what a lookup without it would.

  * a successful lookup is remembered (a failed one raises and is not);
  * the cache may forget entries at any time (LRU eviction, and `cache_clear()` of any other PyCdlib object, because
    the decorator sits on the method and the table is shared by all objects) — modelled as an arbitrary `keep` filter;
  * an edit replaces the tree and, if it is a `clears` edit, empties the cache.
Mathlib-free.
-/
namespace Pycdlib.Cache

/-- the directory tree seen through one namespace: path key ↦ record -/
abbrev Tree := Nat → Option Nat

structure St where
  tree : Tree
  cache : List (Nat × Nat)        -- (path key, record)

inductive Op where
  | lookup (p : Nat)
  | edit (f : Tree → Tree) (clears : Bool)
  | forget (keep : Nat × Nat → Bool)      -- eviction / a clear issued by another object

def cached (c : List (Nat × Nat)) (p : Nat) : Option Nat := (c.find? (·.1 = p)).map (·.2)

/-- one step and what the caller sees (`none` = PyCdlibInvalidInput "could not find path") -/
def step (s : St) : Op → St × Option Nat
  | .lookup p =>
    match cached s.cache p with
    | some r => (s, some r)
    | none =>
      match s.tree p with
      | some r => ({ s with cache := (p, r) :: s.cache }, some r)
      | none => (s, none)
  | .edit f clears => ({ tree := f s.tree, cache := if clears then [] else s.cache }, none)
  | .forget keep => ({ s with cache := s.cache.filter keep }, none)

/-- the same without any cache -/
def stepPlain (t : Tree) : Op → Tree × Option Nat
  | .lookup p => (t, t p)
  | .edit f _ => (f t, none)
  | .forget _ => (t, none)

def run (s : St) : List Op → St × List (Option Nat)
  | [] => (s, [])
  | op :: ops => let (s', o) := step s op; let (s'', os) := run s' ops; (s'', o :: os)

def runPlain (t : Tree) : List Op → Tree × List (Option Nat)
  | [] => (t, [])
  | op :: ops => let (t', o) := stepPlain t op; let (t'', os) := runPlain t' ops; (t'', o :: os)

/-- every remembered answer is still the right one -/
def Coherent (s : St) : Prop := ∀ p r, (p, r) ∈ s.cache → s.tree p = some r

/-- every edit of the history clears the cache -/
def AllClear : List Op → Prop
  | [] => True
  | .edit _ c :: ops => c = true ∧ AllClear ops
  | _ :: ops => AllClear ops

end Pycdlib.Cache
