/-
Model/VdOrder — the order of the volume descriptors from sector 16 on.
Anchor: pycdlib.py `_reshuffle_extents` (head of the method): the first PVD, the boot records, the remaining copies of the
PVD, the supplementary descriptors (enhanced, Joliet), the set terminators; with UDF the three descriptors of the bridge
recognition sequence follow, and everything has to end at or before sector 32 (`_check_udf_vd_room`,
`_udf_assign_extents`).
Descriptor types as recorded in byte 0: 1 primary, 0 boot record, 2 supplementary, 255 terminator.  Mathlib-free.
-/
namespace Pycdlib.VdOrder

structure Counts where
  pvds : Nat        -- copies of the PVD, at least 1
  brs : Nat
  svds : Nat
  vdsts : Nat
deriving Repr

def order (c : Counts) : List Nat :=
  [1] ++ List.replicate c.brs 0 ++ List.replicate (c.pvds - 1) 1 ++ List.replicate c.svds 2 ++ List.replicate c.vdsts 255

/-- sector of the k-th descriptor -/
def sectorOf (k : Nat) : Nat := 16 + k

/-- one more ISO9660 descriptor still leaves room for the three UDF bridge descriptors in front of sector 32 -/
def udfRoomForOneMore (c : Counts) : Bool := 16 + (c.pvds + c.brs + c.svds + c.vdsts + 3) + 1 ≤ 32

end Pycdlib.VdOrder
