/-
Model/Walk — the skeleton of the directory walks of the parser.
Anchors: pycdlib.py `_walk_directories` (:1009; `dirs` deque, `seen_dir_extents`) and `_walk_udf_directories`
(:2088; `udf_file_entries` deque, `seen_udf_dir_extents`).  `children e` stands for "the extents of the child
directories found by parsing the directory stored at extent `e`" — an ARBITRARY function of the (possibly hostile)
image: it may contain cycles, self-references and shared extents.  Mathlib-free.
-/
namespace Pycdlib.Walk

inductive Outcome where
  | done (visited : List Nat)     -- every reachable directory parsed once
  | repeated                      -- PyCdlibInvalidISO: an extent is referenced twice
  | outOfFuel                     -- only for the model's structural recursion; shown unreachable
deriving Repr, DecidableEq

/-- queue the child directories of one directory; `none` when one of them has been seen before -/
def addChildren : List Nat → List Nat → List Nat → Option (List Nat × List Nat)
  | [], q, v => some (q, v)
  | c :: cs, q, v => if v.contains c then none else addChildren cs (q ++ [c]) (v ++ [c])

def walk (children : Nat → List Nat) : Nat → List Nat → List Nat → Outcome
  | 0, [], v => .done v
  | 0, _ :: _, _ => .outOfFuel
  | _ + 1, [], v => .done v
  | f + 1, d :: q, v =>
    match addChildren (children d) q v with
    | none => .repeated
    | some (q', v') => walk children f q' v'

end Pycdlib.Walk
