/-
Model/Layout — sequential sector allocation, the skeleton of `_reshuffle_extents` (pycdlib.py:1457-1668):
a running `current_extent` that every object (descriptor, path table, directory, continuation block,
catalog, file) advances by its own sector count, in a fixed order.  Mathlib-free.
-/
namespace Pycdlib

/-- objects of `counts` sectors placed one after the other from `start`: (first sector, count) -/
def place (start : Nat) : List Nat → List (Nat × Nat)
  | [] => []
  | c :: cs => (start, c) :: place (start + c) cs

def placeEnd (start : Nat) (cs : List Nat) : Nat := start + cs.sum

/-- `utils.ceiling_div(len, 2048)` sectors for `len` bytes -/
def sectorsOf (len : Nat) : Nat := (len + 2047) / 2048

/-- space accounting by deltas: `add_to_space_size` / `remove_from_space_size` (headervd.py) take BYTES
and convert with ceiling division -/
def addSpace (space bytes : Nat) : Nat := space + sectorsOf bytes
def removeSpace (space bytes : Nat) : Nat := space - sectorsOf bytes

end Pycdlib
