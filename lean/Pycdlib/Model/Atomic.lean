/-
Model/Atomic — the shape of a multi-namespace edit.
Anchors: pycdlib/pycdlib.py `_check_new_paths` / `_check_new_dr_child` (validation of every namespace before the first
change), `_add_fp`, `add_directory`, `add_symlink`, `add_eltorito`, `rm_directory`.

An edit is a list of `Part`s, one per namespace it touches; each part has a precondition (`check`, returning the reason
for a refusal) and an effect (`apply`).  Two ways of running the parts are modelled:
  * `interleaved` — check part 1, apply part 1, check part 2, apply part 2, ... (what the code did before the
    "fix: check every path ..." commits; a refusal in part k leaves parts 1..k-1 applied);
  * `checked`     — check every part against the initial state, then apply them all (what the code does now).
The concrete instance is a three-namespace directory tree (`St`) with `add` and `rmdir`.  Mathlib-free.
-/
import Pycdlib.Model.Names
import Pycdlib.Model.Unicode
namespace Pycdlib.Atomic
open Pycdlib

inductive Cause where
  | missingParent | parentNotDir | illegalName | duplicate | noNamespace | notFound | notDir | notEmpty | isRoot | tooDeep
  deriving DecidableEq, Repr

structure Part (σ : Type) where
  check : σ → Option Cause
  apply : σ → σ

/-- validate-and-mutate one part after the other; a refusal keeps whatever was applied so far -/
def interleaved {σ : Type} : List (Part σ) → σ → σ × Option Cause
  | [], s => (s, none)
  | p :: ps, s =>
    match p.check s with
    | some c => (s, some c)
    | none => interleaved ps (p.apply s)

def firstRefusal {σ : Type} : List (Part σ) → σ → Option Cause
  | [], _ => none
  | p :: ps, s =>
    match p.check s with
    | some c => some c
    | none => firstRefusal ps s

def applyAll {σ : Type} (ps : List (Part σ)) (s : σ) : σ := ps.foldl (fun s p => p.apply s) s

/-- validate every part first, then mutate -/
def checked {σ : Type} (ps : List (Part σ)) (s : σ) : σ × Option Cause :=
  match firstRefusal ps s with
  | some c => (s, some c)
  | none => (applyAll ps s, none)

/-- no part's precondition is affected by an earlier part's effect (they act on different namespaces) -/
def Indep {σ : Type} (ps : List (Part σ)) : Prop :=
  ps.Pairwise fun p q => ∀ s, q.check (p.apply s) = q.check s

/-! ### the concrete three-namespace tree -/

/-- a name is a list of Unicode code points -/
abbrev Name := List Nat
abbrev Path := List Name

structure Entry where
  path : Path
  isDir : Bool
  deriving DecidableEq

abbrev Ns := List Entry

structure St where
  iso : Option Ns
  joliet : Option Ns
  udf : Option Ns

inductive Which where | iso | joliet | udf deriving DecidableEq

def St.get (s : St) : Which → Option Ns
  | .iso => s.iso | .joliet => s.joliet | .udf => s.udf

def St.set (s : St) (w : Which) (n : Ns) : St :=
  match w with
  | .iso => { s with iso := some n }
  | .joliet => { s with joliet := some n }
  | .udf => { s with udf := some n }

def hasPath (ns : Ns) (p : Path) : Bool := ns.any fun e => e.path = p
def isDirAt (ns : Ns) (p : Path) : Bool := p = [] || ns.any fun e => e.path = p && e.isDir
def hasChild (ns : Ns) (p : Path) : Bool := ns.any fun e => e.path.dropLast = p && e.path ≠ []

def tooDeep (maxDepth : Option Nat) (p : Path) : Bool :=
  match maxDepth with
  | some m => decide (p.length > m)
  | none => false

/-- precondition of adding `p` to one namespace; `legal isDir name` is that namespace's identifier rule, `maxDepth` its
limit on the number of path components (ECMA-119 6.8.2.1: eight levels including the root) -/
def checkAdd (legal : Bool → Name → Bool) (maxDepth : Option Nat) (d : Bool) (p : Path) (ns : Ns) : Option Cause :=
  match p.getLast? with
  | none => some .isRoot
  | some name =>
    if tooDeep maxDepth p then some .tooDeep
    else if !isDirAt ns p.dropLast then
      (if hasPath ns p.dropLast then some .parentNotDir else some .missingParent)
    else if !legal d name then some .illegalName
    else if hasPath ns p then some .duplicate
    else none

def checkRmdir (p : Path) (ns : Ns) : Option Cause :=
  if p = [] then some .isRoot
  else if !hasPath ns p then some .notFound
  else if !isDirAt ns p then some .notDir
  else if hasChild ns p then some .notEmpty
  else none

def onNs (w : Which) (chk : Ns → Option Cause) (f : Ns → Ns) : Part St :=
  { check := fun s => match s.get w with
      | none => some .noNamespace
      | some ns => chk ns
    apply := fun s => match s.get w with
      | none => s
      | some ns => s.set w (f ns) }

structure Legal where
  iso : Bool → Name → Bool
  joliet : Bool → Name → Bool
  udf : Bool → Name → Bool
  isoMaxDepth : Option Nat := none

def Legal.get (L : Legal) : Which → Bool → Name → Bool
  | .iso => L.iso | .joliet => L.joliet | .udf => L.udf

inductive Kind where | add (isDir : Bool) | rmdir

structure Op where
  kind : Kind
  iso : Option Path
  joliet : Option Path
  udf : Option Path

def partFor (L : Legal) (k : Kind) (w : Which) (p : Path) : Part St :=
  match k with
  | .add d => onNs w (checkAdd (L.get w) (if w = .iso then L.isoMaxDepth else none) d p) (fun ns => ⟨p, d⟩ :: ns)
  | .rmdir => onNs w (checkRmdir p) (fun ns => ns.filter fun e => e.path ≠ p)

/-- the parts of an edit, in the order the library handles the namespaces -/
def parts (L : Legal) (o : Op) : List (Part St) :=
  (match o.iso with | some p => [partFor L o.kind .iso p] | none => []) ++
  (match o.joliet with | some p => [partFor L o.kind .joliet p] | none => []) ++
  (match o.udf with | some p => [partFor L o.kind .udf p] | none => [])

def stepChecked (L : Legal) (s : St) (o : Op) : St × Option Cause := checked (parts L o) s
def stepInterleaved (L : Legal) (s : St) (o : Op) : St × Option Cause := interleaved (parts L o) s

/-- run a history; also return the sub-history of accepted edits -/
def runLog (L : Legal) : St → List Op → St × List Op
  | s, [] => (s, [])
  | s, o :: os =>
    match stepChecked L s o with
    | (s', none) => let r := runLog L s' os; (r.1, o :: r.2)
    | (s', some _) => runLog L s' os

/-! ### identifier rules as the library applies them (used by the driver; theorems are parametric in `Legal`) -/

def drLen (xa : Bool) (n : Nat) : Nat :=
  let l := 33 + n + (if xa then 14 else 0)
  l + l % 2

def isoLegal (lvl : Nat) (rr xa : Bool) (d : Bool) (name : Name) : Bool :=
  let b := utf8s name
  (match (if d then checkIsoDirectory lvl b else checkIsoFilename lvl b) with | .ok _ => true | .error _ => false) &&
  drLen xa b.length ≤ 254 && (!rr || drLen xa b.length + 28 ≤ 254)

/-- `len(name) > 64` on the UTF-8 bytes (pycdlib.py `_joliet_name_and_parent_from_path`) -/
def jolietLegal (_d : Bool) (name : Name) : Bool := (utf8s name).length ≤ 64

/-- udf.py `UDFFileIdentifierDescriptor.new`: latin-1 when it fits, else UTF-16BE; at most 254 bytes -/
def udfLegal (_d : Bool) (name : Name) : Bool :=
  (if name.all (· < 256) then name.length else (utf16be name).length) ≤ 254

def libLegal (lvl : Nat) (rr xa : Bool) : Legal :=
  { iso := isoLegal lvl rr xa, joliet := jolietLegal, udf := udfLegal,
    -- pycdlib.py `_check_path_depth`: without Rock Ridge and below level 4 at most 7 components
    isoMaxDepth := if !rr && lvl < 4 then some 7 else none }

end Pycdlib.Atomic
