/-
Model/Susp — how pycdlib lays Rock Ridge entries into the directory record's system use area and the
continuation area.
Anchors: rockridge.py `_add_name` (:2987), `_new_symlink` (:2735), `_assign_entries` (:3019), `new` (:3196),
constants `ALLOWED_DR_SIZE = 254`, `TF_FLAGS = 0x0e`; entry lengths from the `length()` static methods;
`RockRidgeContinuationBlock.add_entry/remove_entry` (:3697-3760) and `headervd.add_rr_ce_entry` (:504).
Mathlib-free.
-/
import Pycdlib.Model.Bytes
namespace Pycdlib.Susp

def allowed : Nat := 254

inductive Ver where | v109 | v110 | v112
deriving DecidableEq, Repr

def pxLen : Ver → Nat
  | .v112 => 44
  | _ => 36

def erLen : Ver → Nat
  | .v112 => 8 + 10 + 72 + 93      -- IEEE_P1282 / description / source strings of RRIP 1.12
  | _ => 8 + 10 + 84 + 135         -- RRIP_1991A strings

/-- one SL component: (flags, data); flags 1 = continued, 2 = ".", 4 = "..", 8 = root -/
structure Comp where
  flags : Nat
  data : Bytes
deriving DecidableEq, Repr

/-- a system use entry as far as placement is concerned: signature, total length, payload -/
inductive Ent where
  | fixed (sig : String) (len : Nat)
  | nm (continued : Bool) (piece : Bytes)
  | sl (continued : Bool) (comps : List Comp)
deriving DecidableEq, Repr

def compLen (c : Comp) : Nat := 2 + (if c.flags / 2 % 2 = 1 ∨ c.flags / 4 % 2 = 1 ∨ c.flags / 8 % 2 = 1 then 0 else c.data.length)

def Ent.len : Ent → Nat
  | .fixed _ l => l
  | .nm _ p => 5 + p.length
  | .sl _ cs => 5 + (cs.map compLen).sum

structure Acc where
  cur : Nat                 -- `curr_dr_len`
  dr : List Ent := []       -- entries in the directory record
  ce : List Ent := []       -- entries in the continuation area
deriving Repr

/-- the common "does it fit in the directory record, else continuation area" step of `_assign_entries` -/
def put (hasCE : Bool) (a : Acc) (e : Ent) : Option Acc :=
  if a.cur + e.len > allowed then
    if hasCE then some { a with ce := a.ce ++ [e] } else none
  else some { a with cur := a.cur + e.len, dr := a.dr ++ [e] }

/-- pieces of at most 250 bytes (`_add_name`'s continuation loop) -/
def chunks250 (fuel : Nat) (l : Bytes) : List Bytes :=
  match fuel with
  | 0 => []
  | fuel + 1 => if l.isEmpty then [] else l.take 250 :: chunks250 fuel (l.drop 250)

/-- mark every piece but the last as continued -/
def markNm : List Bytes → List Ent
  | [] => []
  | [p] => [.nm false p]
  | p :: ps => .nm true p :: markNm ps

/-- `_add_name(rr_name, curr_dr_len)` -/
def addName (hasCE : Bool) (a : Acc) (name : Bytes) : Option Acc :=
  let lenHere := allowed - a.cur - 5
  if lenHere < name.length ∧ !hasCE then none
  else
    let first := name.take lenHere
    let rest := name.drop lenHere
    let restPieces := chunks250 (rest.length + 1) rest
    let all := markNm ((if lenHere > 0 then [first] else []) ++ restPieces)
    let nDr := if lenHere > 0 then 1 else 0
    some { a with cur := a.cur + (if lenHere > 0 then 5 + first.length else 0),
                  dr := a.dr ++ all.take nDr, ce := a.ce ++ all.drop nDr }

/-! ### symlinks -/

structure SlSt where
  cur : Nat                     -- curr_dr_len
  inDr : Bool                   -- is the SL record being filled the one in the directory record
  area : Nat                    -- curr_comp_area_length
  open_ : List Comp             -- components of the SL record being filled
  doneDr : List Ent             -- closed SL records in the DR (at most one)
  doneCe : List Ent             -- closed SL records in the continuation area
deriving Repr

def closeSl (s : SlSt) (continued : Bool) : SlSt :=
  let e := Ent.sl continued s.open_
  if s.inDr then { s with doneDr := s.doneDr ++ [e], open_ := [] }
  else { s with doneCe := s.doneCe ++ [e], open_ := [] }

def setLastContinued (cs : List Comp) : List Comp :=
  match cs.reverse with
  | [] => []
  | c :: rest => (({ c with flags := c.flags ||| 1 } : Comp) :: rest).reverse

/-- close the record being filled (marking its last piece CONTINUE when a component is cut in two) and open a new one
in the continuation area -/
def SlSt.reopen (s : SlSt) (markLast : Bool) : SlSt :=
  let s1 := if markLast then { s with open_ := setLastContinued s.open_ } else s
  { closeSl s1 true with inDr := false, area := 250 }

/-- append one component record to the SL entry being filled -/
def SlSt.push (s : SlSt) (c : Comp) (grow used : Nat) : SlSt :=
  { s with open_ := s.open_ ++ [c], cur := if s.inDr then s.cur + grow else s.cur, area := s.area - used }

/-- the inner `while not done` loop for one component -/
def slComp (fuel : Nat) (s : SlSt) (comp : Bytes) (special : Bool) (flag : Nat) (offset : Nat) : SlSt :=
  match fuel with
  | 0 => s
  | fuel + 1 =>
    -- the smallest piece that can be recorded: a special component (2 bytes), one byte of the component (3), or an
    -- empty component (2)
    let minimum := if special || comp.isEmpty then 2 else 3
    -- no room even for that: close this SL record and open a new one in the CE area
    let s := if minimum > s.area then s.reopen (offset ≠ 0) else s
    if special then s.push { flags := flag, data := [] } 2 2
    else
      let restc := comp.drop offset
      let complen := 2 + restc.length
      let length := if complen > s.area then s.area - 2 else complen
      let slice := restc.take length
      -- the component record takes its two header bytes plus the bytes put into it
      let s' := s.push { flags := 0, data := slice } (2 + slice.length) (2 + slice.length)
      if offset + length ≥ comp.length then s' else slComp fuel s' comp false 0 (offset + length)

def splitSlash : Bytes → List Bytes
  | [] => [[]]
  | x :: xs =>
    if x = 47 then [] :: splitSlash xs
    else match splitSlash xs with
      | [] => [[x]]
      | p :: ps => (x :: p) :: ps

/-- `_new_symlink(symlink_path, curr_dr_len)`; `none` = -1 -/
def newSymlink (hasCE : Bool) (a : Acc) (target : Bytes) : Option Acc :=
  let comps := splitSlash target
  let total := 5 + (comps.map fun c => 2 + (if c = [46] ∨ c = [46, 46] ∨ c = [47] then 0 else c.length)).sum
  if a.cur + total > allowed ∧ !hasCE then none
  else
    -- without a continuation entry everything goes into the directory record (the check above made sure it fits)
    let inDr := !hasCE || a.cur + 8 < allowed
    let s0 : SlSt := { cur := if inDr then a.cur + 5 else a.cur, inDr := inDr,
                       area := if inDr then allowed - a.cur - 5 else 250, open_ := [], doneDr := [], doneCe := [] }
    let s := (List.zip (List.range comps.length) comps).foldl (fun s (i, c) =>
      if i = 0 ∧ c = [] then slComp (c.length + 3) s [47] true 8 0
      else if c = [46] then slComp 3 s c true 2 0
      else if c = [46, 46] then slComp 3 s c true 4 0
      else slComp (c.length + 3) s c false 0 0) s0
    let s := closeSl s false
    some { cur := s.cur, dr := a.dr ++ s.doneDr, ce := a.ce ++ s.doneCe }

/-- an entry that is recorded only under a condition -/
def optPut (c hasCE : Bool) (a : Acc) (e : Ent) : Option Acc := if c then put hasCE a e else some a

/-- `_assign_entries` (without AL attributes): the order of entries is SP, RR, NM*, PX, SL*, TF, CL, RE, PL, ER -/
def assign (hasCE : Bool) (first : Bool) (ver : Ver) (name : Bytes) (target : Option Bytes)
    (cl re pl : Bool) (cur : Nat) : Option Acc :=
  (optPut first hasCE { cur := cur } (.fixed "SP" 7)).bind fun a =>
  (optPut (ver = .v109) hasCE a (.fixed "RR" 5)).bind fun a =>
  (if name.isEmpty then some a else addName hasCE a name).bind fun a =>
  (put hasCE a (.fixed "PX" (pxLen ver))).bind fun a =>
  (match target with
    | some t => if t.isEmpty then some a else newSymlink hasCE a t
    | none => some a).bind fun a =>
  (put hasCE a (.fixed "TF" 26)).bind fun a =>
  (optPut cl hasCE a (.fixed "CL" 12)).bind fun a =>
  (optPut re hasCE a (.fixed "RE" 4)).bind fun a =>
  (optPut pl hasCE a (.fixed "PL" 12)).bind fun a =>
  optPut first hasCE a (.fixed "ER" (erLen ver))

structure RRLayout where
  drLen : Nat              -- new directory record length (padded to even)
  hasCE : Bool
  dr : List Ent
  ce : List Ent
  ceLen : Nat              -- `len_cont_area`
deriving Repr

/-- `RockRidge.new`: first without, then with a continuation entry -/
def rrNew (first : Bool) (ver : Ver) (name : Bytes) (target : Option Bytes) (cl re pl : Bool) (cur : Nat) :
    Option RRLayout :=
  match assign false first ver name target cl re pl cur with
  | some a => some { drLen := a.cur + a.cur % 2, hasCE := false, dr := a.dr, ce := [], ceLen := 0 }
  | none =>
    match assign true first ver name target cl re pl (cur + 28) with
    | some a =>
      if a.cur > allowed then none
      else some { drLen := a.cur + a.cur % 2, hasCE := true, dr := a.dr, ce := a.ce, ceLen := (a.ce.map Ent.len).sum }
    | none => none

/-! ### what an independent SUSP reader reassembles -/

def nmName (es : List Ent) : Bytes :=
  es.flatMap fun e => match e with
    | .nm _ p => p
    | _ => []

def compName (c : Comp) : Bytes :=
  if c.flags / 2 % 2 = 1 then [46] else if c.flags / 4 % 2 = 1 then [46, 46] else c.data

/-- reader state while joining SL components -/
structure SlAcc where
  out : Bytes := []
  needSep : Bool := false
  cont : Bool := false          -- previous component had CONTINUE

/-- join SL components the way RRIP 4.1.3 prescribes: "/" between components, none after a continued piece,
the root component is the leading "/" -/
def slStep (a : SlAcc) (c : Comp) : SlAcc :=
  let sep : Bytes := if a.needSep && !a.cont then [47] else []
  if c.flags / 8 % 2 = 1 then { out := a.out ++ sep ++ [47], needSep := false, cont := c.flags % 2 = 1 }
  else { out := a.out ++ sep ++ compName c, needSep := true, cont := c.flags % 2 = 1 }

def slFold (cs : List Comp) : SlAcc := cs.foldl slStep {}

def slTarget (cs : List Comp) : Bytes := (slFold cs).out

def allComps (es : List Ent) : List Comp :=
  es.flatMap fun e => match e with
    | .sl _ cs => cs
    | _ => []

/-! ### continuation block allocator -/

/-- entries of one continuation block, sorted by offset: (offset, length) -/
abbrev Block := List (Nat × Nat)

/-- `RockRidgeContinuationBlock.add_entry(length)` for `length ≥ 1`: the first gap that fits, scanning the
entries in offset order (`prevEnd` = end of the previous entry, 0 before the first); `none` = -1 -/
def findGap (bs : Nat) (len : Nat) (prevEnd : Nat) : Block → Option Nat
  | [] => if prevEnd + len ≤ bs then some prevEnd else none
  | (o, l) :: rest => if prevEnd + len ≤ o then some prevEnd else findGap bs len (o + l) rest

def insertSorted (e : Nat × Nat) : Block → Block
  | [] => [e]
  | x :: xs => if e.1 < x.1 then e :: x :: xs else x :: insertSorted e xs

def addEntry (bs : Nat) (b : Block) (len : Nat) : Option (Nat × Block) :=
  match findGap bs len 0 b with
  | some off => some (off, insertSorted (off, len) b)
  | none => none

def removeEntry (b : Block) (off len : Nat) : Block :=
  b.filter fun e => !(e.1 = off ∧ e.2 = len)

/-- `headervd.add_rr_ce_entry`: first block with room, else a new block. Returns (addedBlock, blockIndex, offset, blocks) -/
def addCe (bs : Nat) (blocks : List Block) (len : Nat) : Bool × Nat × Nat × List Block :=
  let rec go (i : Nat) (pre : List Block) : List Block → Bool × Nat × Nat × List Block
    | [] =>
      match addEntry bs [] len with
      | some (off, b) => (true, i, off, pre ++ [b])
      | none => (true, i, 0, pre ++ [[]])
    | b :: rest =>
      match addEntry bs b len with
      | some (off, b') => (false, i, off, pre ++ b' :: rest)
      | none => go (i + 1) (pre ++ [b]) rest
  go 0 [] blocks

end Pycdlib.Susp
