/-
Model/DirBytes — the bytes of one directory extent.
Writer: pycdlib.py `_write_directory_records`, inner loop over `curr.children` (a record that does not fit into the rest of
the block starts the next block; the gap stays zero), followed by whatever is left of the directory's `data_length`
(zeros).  Reader: the generic ECMA-119 6.8.1 reader that `_walk_directories` also implements — a zero length byte means
"nothing more in this block", otherwise the byte is the length of the record that starts here.  Mathlib-free.
-/
import Pycdlib.Model.Bytes
namespace Pycdlib.DirBytes
open Pycdlib

/-- the writer: `off` bytes of the current block are used -/
def render (bs : Nat) (off : Nat) : List Bytes → Bytes
  | [] => zeros (bs - off)
  | r :: rs =>
    if off + r.length > bs then zeros (bs - off) ++ r ++ render bs r.length rs
    else r ++ render bs (off + r.length) rs

/-- the bytes of a directory whose reservation is `extra` blocks larger than its records need -/
def renderDir (bs : Nat) (recs : List Bytes) (extra : Nat) : Bytes := render bs 0 recs ++ zeros (extra * bs)

/-- the reader; `off` = position inside the current block; one unit of fuel per record or skipped gap -/
def parse (bs : Nat) : Nat → Nat → Bytes → List Bytes
  | 0, _, _ => []
  | _ + 1, _, [] => []
  | fuel + 1, off, x :: b =>
    if x = 0 then parse bs fuel 0 ((x :: b).drop (bs - off))
    else (x :: b).take x.toNat :: parse bs fuel (if off + x.toNat ≥ bs then 0 else off + x.toNat) ((x :: b).drop x.toNat)

/-- what the reader relies on: the first byte of a record is its length, and a record fits into a block -/
def RecOk (bs : Nat) (r : Bytes) : Prop :=
  ∃ l t, r = l :: t ∧ l.toNat = r.length ∧ r.length ≤ bs

end Pycdlib.DirBytes
