/-
Model/Iso — the size bookkeeping of the edit calls as ONE state machine (ISO9660 / Joliet / XA / Rock Ridge records,
continuation blocks, PVD copies, hard links): what every public edit does to the directories' `data_length`, the two
path-table reservations, the list of file contents (Inodes) and the declared volume size, and what `_reshuffle_extents`
computes from scratch for the same state.

Anchors (pycdlib.py): `_add_child_to_dr` (block size when `dr.add_child` overflowed), `_remove_child_from_dr`,
`_add_to_ptr_size` / `_remove_from_ptr_size` (four extents when a table grows / shrinks), `add_directory`
(`num_bytes_to_add += logical_block_size` for the new extent), `rm_directory` (`child.get_data_length()`),
`_add_fp` / `_add_hard_link_to_inode` (`num_bytes_to_add += length` for a new Inode only), `_rm_dr_link` (data length
only when the last link goes), `_update_rr_ce_entry` / `_remove_rr_ce_entry` (one block per continuation block),
`duplicate_pvd` (one block), `_finish_add` / `_finish_remove` (ONE `ceiling_div` of the summed bytes per call);
dr.py `_add_child` growth rule, `remove_child` shrink rule; `_reshuffle_extents` + `_reassign_vd_dirrecord_extents`
(sequential placement: descriptors, 2 x path table per descriptor, directories, continuation blocks, file contents).
Not in this machine: UDF (partition accounting), El Torito catalog, isohybrid.  Mathlib-free.
-/
import Pycdlib.Model.Pack
import Pycdlib.Model.Layout
import Pycdlib.Model.PathTable
import Pycdlib.Model.Susp
namespace Pycdlib.Iso
open Pycdlib

abbrev BS : Nat := 2048

/-- a directory of either hierarchy: the record lengths (`dr_len`) of its children in recorded order -/
structure Dir where
  id : Nat
  lens : List Nat
  dataLen : Nat
deriving Repr, DecidableEq

/-- a UDF directory: one sector for its File Entry, and the File Identifier Descriptors of its entries (`info_len` bytes) -/
structure UDir where
  id : Nat
  info : Nat
deriving Repr, DecidableEq

/-- a file content (Inode) with the number of records / UDF entries that name it, and how many of those are UDF entries
(they share ONE File Entry sector, which exists as long as there is a UDF name) -/
structure Ino where
  id : Nat
  len : Nat
  links : Nat
  nudf : Nat
deriving Repr, DecidableEq

structure State where
  fixed : Nat               -- sectors in front of the path tables: system area, descriptors, version descriptor, ER sector
  ceb : List Susp.Block     -- Rock Ridge continuation blocks with their entries (offset, length), `pvd.rr_ce_blocks`
  dirs : List Dir
  pt0 : PathTable.PT        -- ISO9660 path tables
  pt1 : PathTable.PT        -- Joliet path tables (⟨0,0⟩ when there is no Joliet descriptor)
  inos : List Ino
  udirs : List UDir         -- UDF directories ([] without UDF)
  ufree : Nat               -- File Entry sectors of UDF entries that have no content object
  space : Nat               -- `pvd.space_size`, maintained by deltas
deriving Repr, DecidableEq

def insertAt (l : List Nat) (i x : Nat) : List Nat := l.take i ++ x :: l.drop i
def removeAt (l : List Nat) (i : Nat) : List Nat := l.take i ++ l.drop (i + 1)

/-- what `_reshuffle_extents` needs in sectors for this state, from scratch -/
def dirSectors (ds : List Dir) : Nat := (ds.map fun d => d.dataLen / BS).sum
def feOf (i : Ino) : Nat := if 0 < i.nudf then 1 else 0
def inoSectors (is : List Ino) : Nat := (is.map fun i => sectorsOf i.len + feOf i).sum
/-- `utils.ceiling_div(info_len, 2048)`: the sectors of a directory's File Identifier area -/
def fidBlocks (info : Nat) : Nat := (info + 2047) / BS
def udirSectors (us : List UDir) : Nat := (us.map fun u => 1 + fidBlocks u.info).sum
def layoutEnd (s : State) : Nat :=
  s.fixed + 2 * s.pt0.extents + 2 * s.pt1.extents + dirSectors s.dirs + s.ceb.length + inoSectors s.inos + udirSectors s.udirs + s.ufree

/-- the objects in the order `_reshuffle_extents` places them, as sector counts -/
def layoutCounts (s : State) : List Nat :=
  [s.fixed, s.pt0.extents, s.pt0.extents, s.pt1.extents, s.pt1.extents] ++ s.dirs.map (fun d => d.dataLen / BS)
    ++ List.replicate s.ceb.length 1 ++ s.inos.map (fun i => sectorsOf i.len + feOf i) ++ s.udirs.map (fun u => 1 + fidBlocks u.info)
    ++ List.replicate s.ufree 1

/-- update the first directory with the given id; `none` when there is none or the update refuses -/
def updDir (id : Nat) (f : Dir → Option (Dir × Nat)) : List Dir → Option (List Dir × Nat)
  | [] => none
  | d :: ds =>
    if d.id = id then (f d).map fun r => (r.1 :: ds, r.2)
    else (updDir id f ds).map fun r => (d :: r.1, r.2)

/-- `dr.add_child`: insert, recompute the packing, grow by one block when the records no longer fit -/
def insertRec (idx len : Nat) (d : Dir) : Option (Dir × Nat) :=
  if idx ≤ d.lens.length ∧ 0 < len ∧ len ≤ 255 then
    let lens := insertAt d.lens idx len
    let g := growLen BS d.dataLen (nextFit BS lens).1
    some ({ d with lens := lens, dataLen := g.1 }, if g.2 then BS else 0)
  else none

/-- `dr.remove_child`: delete, recompute the packing, shrink by one block when more than a block is unused -/
def removeRec (idx : Nat) (d : Dir) : Option (Dir × Nat) :=
  if idx < d.lens.length then
    let lens := removeAt d.lens idx
    let g := shrinkLen BS d.dataLen (nextFit BS lens)
    some ({ d with lens := lens, dataLen := g.1 }, if g.2 then BS else 0)
  else none

/-- remove the first directory with the given id, returning its `data_length` -/
def dropDir (id : Nat) : List Dir → Option (List Dir × Nat)
  | [] => none
  | d :: ds =>
    if d.id = id then some (ds, d.dataLen)
    else (dropDir id ds).map fun r => (d :: r.1, r.2)

/-- update the first UDF directory with the given id -/
def updUDir (id : Nat) (f : UDir → Option (UDir × Nat)) : List UDir → Option (List UDir × Nat)
  | [] => none
  | u :: us =>
    if u.id = id then (f u).map fun r => (r.1 :: us, r.2)
    else (updUDir id f us).map fun r => (u :: r.1, r.2)

/-- `UDFFileEntry.add_file_ident_desc`: the File Identifier area grows by whole blocks as `info_len` grows -/
def addFid (len : Nat) (u : UDir) : Option (UDir × Nat) :=
  some ({ u with info := u.info + len }, (fidBlocks (u.info + len) - fidBlocks u.info) * BS)

/-- `remove_file_ident_desc_by_name` -/
def rmFid (len : Nat) (u : UDir) : Option (UDir × Nat) :=
  if len ≤ u.info then some ({ u with info := u.info - len }, (fidBlocks u.info - fidBlocks (u.info - len)) * BS) else none

/-- `rm_directory(udf_path=...)`: the File Entry and ONE block of File Identifiers (the directory is empty) -/
def dropUDir (id : Nat) : List UDir → Option (List UDir × Nat)
  | [] => none
  | u :: us =>
    if u.id = id then (if fidBlocks u.info = 1 then some (us, 2 * BS) else none)
    else (dropUDir id us).map fun r => (u :: r.1, r.2)

/-- `headervd.add_rr_ce_entry`: the first block with a gap that fits (`RockRidgeContinuationBlock.add_entry`, Susp.addEntry),
else a new block — which costs one block of volume space -/
def ceAdd (len : Nat) : List Susp.Block → List Susp.Block × Nat
  | [] => ([match Susp.addEntry BS [] len with
            | some r => r.2
            | none => []], BS)
  | b :: rest =>
    match Susp.addEntry BS b len with
    | some r => (r.2 :: rest, 0)
    | none => (b :: (ceAdd len rest).1, (ceAdd len rest).2)

/-- `headervd.remove_rr_ce_entry`: the entry leaves its block; a block without entries is given back -/
def ceFree (idx off len : Nat) : List Susp.Block → Option (List Susp.Block × Nat)
  | [] => none
  | b :: rest =>
    if idx = 0 then
      if b.contains (off, len) then
        (if (Susp.removeEntry b off len).isEmpty then some (rest, BS) else some (Susp.removeEntry b off len :: rest, 0))
      else none
    else (ceFree (idx - 1) off len rest).map fun r => (b :: r.1, r.2)

inductive AddPart where
  | insert (dir idx len : Nat)                          -- a record into a directory
  | mkdir (tree id ptlen : Nat) (lens : List Nat)       -- a new directory extent (dot, dotdot) and its path table record
  | ceEntry (len : Nat)                                 -- a continuation area of `len` bytes for a new record
  | vd                                                  -- one more volume descriptor (duplicate_pvd)
  | ufid (dir len : Nat)                                -- a File Identifier Descriptor into a UDF directory
  | umkdir (id : Nat)                                   -- the File Entry of a new UDF directory
  | ufe                                                 -- the File Entry of a UDF entry without content
deriving Repr

inductive RmPart where
  | remove (dir idx : Nat)
  | rmdir (tree id ptlen : Nat)
  | ceFree (idx off len : Nat)                          -- the continuation area of a removed record
  | ufid (dir len : Nat)
  | urmdir (id : Nat)
  | ufe
deriving Repr

def ptOf (s : State) (tree : Nat) : PathTable.PT := if tree = 0 then s.pt0 else s.pt1
def setPt (s : State) (tree : Nat) (p : PathTable.PT) : State := if tree = 0 then { s with pt0 := p } else { s with pt1 := p }

/-- one part of an adding call: the new state and the bytes the call adds to `num_bytes_to_add` for it -/
def addPart (s : State) : AddPart → Option (State × Nat)
  | .insert dir idx len => (updDir dir (insertRec idx len) s.dirs).map fun r => ({ s with dirs := r.1 }, r.2)
  | .mkdir tree id ptlen lens =>
    if (nextFit BS lens).1 = 1 ∧ (∀ l ∈ lens, l ≤ 255) ∧ ptlen ≤ 4096 then
      let r := PathTable.add (ptOf s tree) ptlen
      let s1 := setPt s tree r.1
      some ({ s1 with dirs := s1.dirs ++ [{ id := id, lens := lens, dataLen := BS }] }, BS + (if r.2 then 4 * BS else 0))
    else none
  | .ceEntry len => some ({ s with ceb := (ceAdd len s.ceb).1 }, (ceAdd len s.ceb).2)
  | .vd => some ({ s with fixed := s.fixed + 1 }, BS)
  | .ufid dir len => (updUDir dir (addFid len) s.udirs).map fun r => ({ s with udirs := r.1 }, r.2)
  | .umkdir id => some ({ s with udirs := s.udirs ++ [{ id := id, info := 0 }] }, BS)
  | .ufe => some ({ s with ufree := s.ufree + 1 }, BS)

def rmPart (s : State) : RmPart → Option (State × Nat)
  | .remove dir idx => (updDir dir (removeRec idx) s.dirs).map fun r => ({ s with dirs := r.1 }, r.2)
  | .rmdir tree id ptlen =>
    if ptlen ≤ 4096 then
      match dropDir id s.dirs, PathTable.remove (ptOf s tree) ptlen with
      | some (ds, dl), some (p, shrank) =>
        let s1 := setPt s tree p
        some ({ s1 with dirs := ds }, dl + (if shrank then 4 * BS else 0))
      | _, _ => none
    else none
  | .ceFree idx off len => (ceFree idx off len s.ceb).map fun r => ({ s with ceb := r.1 }, r.2)
  | .ufid dir len => (updUDir dir (rmFid len) s.udirs).map fun r => ({ s with udirs := r.1 }, r.2)
  | .urmdir id => (dropUDir id s.udirs).map fun r => ({ s with udirs := r.1 }, r.2)
  | .ufe => if 0 < s.ufree then some ({ s with ufree := s.ufree - 1 }, BS) else none

def addParts : State → List AddPart → Option (State × Nat)
  | s, [] => some (s, 0)
  | s, p :: ps =>
    match addPart s p with
    | none => none
    | some (s1, b) => (addParts s1 ps).map fun r => (r.1, b + r.2)

def rmParts : State → List RmPart → Option (State × Nat)
  | s, [] => some (s, 0)
  | s, p :: ps =>
    match rmPart s p with
    | none => none
    | some (s1, b) => (rmParts s1 ps).map fun r => (r.1, b + r.2)

/-- bytes for the File Entry sector of a content when `nu` UDF names are added to one that has `nudf` -/
def feAdd (nu nudf : Nat) : Nat := if nudf = 0 ∧ 0 < nu then BS else 0
/-- … and when `nu` of its `nudf` UDF names go -/
def feRel (nu nudf : Nat) : Nat := if 0 < nu ∧ nu = nudf then BS else 0

/-- `n` more names (`nu` of them UDF entries) for content `id`; a content that is not known yet is created with `len` bytes
(the only bytes that are not whole blocks); the first UDF name brings the content's File Entry sector -/
def linkIno (id len n nu : Nat) : List Ino → List Ino × Nat
  | [] => ([{ id := id, len := len, links := n, nudf := nu }], len + feAdd nu 0)
  | i :: is =>
    if i.id = id then ({ i with links := i.links + n, nudf := i.nudf + nu } :: is, feAdd nu i.nudf)
    else ((i :: (linkIno id len n nu is).1), (linkIno id len n nu is).2)

/-- `n` names (`nu` of them UDF entries) of content `id` go; the File Entry sector goes with the last UDF name, the content
and its bytes with the last name -/
def unlinkIno (id n nu : Nat) : List Ino → Option (List Ino × Nat)
  | [] => none
  | i :: is =>
    if i.id = id then
      if nu ≤ i.nudf ∧ nu ≤ n then
        if n < i.links then some ({ i with links := i.links - n, nudf := i.nudf - nu } :: is, feRel nu i.nudf)
        else if n = i.links ∧ nu = i.nudf then some (is, i.len + feRel nu i.nudf)
        else none
      else none
    else (unlinkIno id n nu is).map fun r => (i :: r.1, r.2)

inductive Op where
  | add (parts : List AddPart) (ino : Option (Nat × Nat × Nat × Nat))   -- content id, length, new names, UDF names among them
  | rm (parts : List RmPart) (ino : Option (Nat × Nat × Nat))          -- content id, names removed, UDF names among them
deriving Repr

/-- one public edit: the parts, then ONE `_finish_add` / `_finish_remove` with the summed bytes -/
def step (s : State) : Op → Option State
  | .add parts ino =>
    match addParts s parts with
    | none => none
    | some (s1, b) =>
      match ino with
      | none => some { s1 with space := addSpace s1.space b }
      | some (id, len, n, nu) =>
        if 0 < n ∧ nu ≤ n then
          let r := linkIno id len n nu s1.inos
          some { s1 with inos := r.1, space := addSpace s1.space (b + r.2) }
        else none
  | .rm parts ino =>
    match rmParts s parts with
    | none => none
    | some (s1, b) =>
      match ino with
      | none => some { s1 with space := removeSpace s1.space b }
      | some (id, n, nu) =>
        match unlinkIno id n nu s1.inos with
        | none => none
        | some (is, lb) => some { s1 with inos := is, space := removeSpace s1.space (b + lb) }

def run : State → List Op → Option State
  | s, [] => some s
  | s, op :: ops =>
    match step s op with
    | none => none
    | some s1 => run s1 ops

/-- a directory's reservation covers its records and is a whole number of blocks -/
def DirOk (d : Dir) : Prop :=
  (∃ k, d.dataLen = k * BS) ∧ (nextFit BS d.lens).1 * BS ≤ d.dataLen ∧ ∀ l ∈ d.lens, l ≤ 255

/-- structure invariant: directories covered, both path-table reservations exact -/
def Ok (s : State) : Prop :=
  (∀ d ∈ s.dirs, DirOk d) ∧ PathTable.Inv s.pt0 ∧ PathTable.Inv s.pt1

def Inv (s : State) : Prop :=
  s.space = layoutEnd s ∧ Ok s

/-- every stored content is named at least once (C07: a content exists exactly as long as a name refers to it) -/
def Named (s : State) : Prop := ∀ i ∈ s.inos, 0 < i.links

/-- `PyCdlib.new()` without extensions: system area, PVD, terminator, version descriptor; path tables; the root -/
def init0 : State :=
  { fixed := 19, ceb := [], dirs := [{ id := 0, lens := [34, 34], dataLen := BS }],
    pt0 := { size := 10, extents := 2 }, pt1 := { size := 0, extents := 0 }, inos := [], udirs := [], ufree := 0, space := 24 }

/-- executable form of `Inv` (what the driver evaluates on a state the harness read off a parsed image);
`Props/C04Iso.invB_iff` proves it equivalent to `Inv` -/
def dirOkB (d : Dir) : Bool :=
  d.dataLen % BS == 0 && decide ((nextFit BS d.lens).1 * BS ≤ d.dataLen) && d.lens.all (fun l => decide (l ≤ 255))

def ptInvB (p : PathTable.PT) : Bool := p.extents == PathTable.cdiv p.size 4096 * 2

def invB (s : State) : Bool :=
  s.space == layoutEnd s && s.dirs.all dirOkB && ptInvB s.pt0 && ptInvB s.pt1

/-- executable form of the continuation-block invariant (`Props/C08Alloc.cebOkB_iff`) -/
def blockOkB (bs : Nat) : Nat → Susp.Block → Bool
  | lo, [] => decide (lo ≤ bs)
  | lo, (o, l) :: rest => decide (lo ≤ o) && blockOkB bs (o + l) rest

def cebOkB (s : State) : Bool := s.ceb.all (blockOkB BS 0)

/-! ### protocol encoding (test infrastructure) -/

def encList (l : List Nat) : String := if l.isEmpty then "-" else ".".intercalate (l.map toString)
def encDir (d : Dir) : String := s!"{d.id}:{d.dataLen}:{encList d.lens}"
def encIno (i : Ino) : String := s!"{i.id}:{i.len}:{i.links}:{i.nudf}"
def encUDir (u : UDir) : String := s!"{u.id}:{u.info}"
def encBlock (b : Susp.Block) : String := if b.isEmpty then "e" else ".".intercalate (b.map fun e => s!"{e.1}:{e.2}")
def encCeb (bs : List Susp.Block) : String := if bs.isEmpty then "-" else ",".intercalate (bs.map encBlock)
def encState (s : State) : String :=
  let ds := if s.dirs.isEmpty then "-" else ",".intercalate (s.dirs.map encDir)
  let is := if s.inos.isEmpty then "-" else ",".intercalate (s.inos.map encIno)
  let us := if s.udirs.isEmpty then "-" else ",".intercalate (s.udirs.map encUDir)
  s!"{s.fixed};{encCeb s.ceb};{s.space};{s.pt0.size},{s.pt0.extents};{s.pt1.size},{s.pt1.extents};{ds};{is};{us};{s.ufree}"

def decList (t : String) : Option (List Nat) := if t = "-" then some [] else (t.splitOn ".").mapM (·.toNat?)

def decMany {α : Type} (f : String → Option α) (sep : String) (t : String) : Option (List α) :=
  if t = "-" then some [] else (t.splitOn sep).mapM f

def decPt (x : String) : Option PathTable.PT :=
  match x.splitOn "," with
  | [a, b] => do pure { size := ← a.toNat?, extents := ← b.toNat? }
  | _ => none

def decDir (x : String) : Option Dir :=
  match x.splitOn ":" with
  | [i, dl, ls] => do pure { id := ← i.toNat?, dataLen := ← dl.toNat?, lens := ← decList ls }
  | _ => none

def decIno (x : String) : Option Ino :=
  match x.splitOn ":" with
  | [i, l, n, nu] => do pure { id := ← i.toNat?, len := ← l.toNat?, links := ← n.toNat?, nudf := ← nu.toNat? }
  | _ => none

def decUDir (x : String) : Option UDir :=
  match x.splitOn ":" with
  | [i, n] => do pure { id := ← i.toNat?, info := ← n.toNat? }
  | _ => none

def decEntry (x : String) : Option (Nat × Nat) :=
  match x.splitOn ":" with
  | [o, l] => do pure ((← o.toNat?), (← l.toNat?))
  | _ => none

def decBlock (x : String) : Option Susp.Block := if x = "e" then some [] else (x.splitOn ".").mapM decEntry

def decState (t : String) : Option State :=
  match t.splitOn ";" with
  | [f, c, sp, p0, p1, ds, is, us, uf] => do
    pure { fixed := ← f.toNat?, ceb := ← decMany decBlock "," c, space := ← sp.toNat?, pt0 := ← decPt p0, pt1 := ← decPt p1,
           dirs := ← decMany decDir "," ds, inos := ← decMany decIno "," is, udirs := ← decMany decUDir "," us,
           ufree := ← uf.toNat? }
  | _ => none

def decAddPart (x : String) : Option AddPart :=
  match x.splitOn ":" with
  | ["i", d, i, l] => do pure (AddPart.insert (← d.toNat?) (← i.toNat?) (← l.toNat?))
  | ["m", tr, i, pl, ls] => do pure (AddPart.mkdir (← tr.toNat?) (← i.toNat?) (← pl.toNat?) (← decList ls))
  | ["k", l] => do pure (AddPart.ceEntry (← l.toNat?))
  | ["v"] => some AddPart.vd
  | ["f", d, l] => do pure (AddPart.ufid (← d.toNat?) (← l.toNat?))
  | ["u", i] => do pure (AddPart.umkdir (← i.toNat?))
  | ["e"] => some AddPart.ufe
  | _ => none

def decRmPart (x : String) : Option RmPart :=
  match x.splitOn ":" with
  | ["x", d, i] => do pure (RmPart.remove (← d.toNat?) (← i.toNat?))
  | ["d", tr, i, pl] => do pure (RmPart.rmdir (← tr.toNat?) (← i.toNat?) (← pl.toNat?))
  | ["z", i, o, l] => do pure (RmPart.ceFree (← i.toNat?) (← o.toNat?) (← l.toNat?))
  | ["f", d, l] => do pure (RmPart.ufid (← d.toNat?) (← l.toNat?))
  | ["u", i] => do pure (RmPart.urmdir (← i.toNat?))
  | ["e"] => some RmPart.ufe
  | _ => none

def decAddIno (x : String) : Option (Option (Nat × Nat × Nat × Nat)) :=
  if x = "-" then some none else
  match x.splitOn ":" with
  | [i, l, n, nu] => do pure (some (← i.toNat?, ← l.toNat?, ← n.toNat?, ← nu.toNat?))
  | _ => none

def decRmIno (x : String) : Option (Option (Nat × Nat × Nat)) :=
  if x = "-" then some none else
  match x.splitOn ":" with
  | [i, n, nu] => do pure (some (← i.toNat?, ← n.toNat?, ← nu.toNat?))
  | _ => none

def decOp (t : String) : Option Op :=
  match t.splitOn "/" with
  | ["a", ps, ino] => do pure (Op.add (← decMany decAddPart "+" ps) (← decAddIno ino))
  | ["r", ps, ino] => do pure (Op.rm (← decMany decRmPart "+" ps) (← decRmIno ino))
  | _ => none

/-- run a history, answering with the state after every op (`refused` from the first op the machine refuses) -/
def trace : State → List Op → List String
  | _, [] => []
  | s, op :: ops =>
    match step s op with
    | none => ["refused"]
    | some s1 => (encState s1 ++ (if invB s1 && cebOkB s1 then "" else "!inv")) :: trace s1 ops

end Pycdlib.Iso
