/-
Model/Spec — the SPECIFICATION the fidelity properties (C01, C02, C07, C08, C09, C10) are stated against:
per namespace a finite map  path ↦ directory | file(blob) | symlink(target)  plus hidden flags, and a blob
store (content id, length).  Each operation is a few lines; nothing here knows about sectors, records,
extents or link counts.  A blob exists exactly as long as some name refers to it.

`Spec.step` returns `none` when the operation is impossible on the abstract state (missing parent,
existing name, wrong kind …) — the implementation must then have refused it.
Mathlib-free.
-/
import Pycdlib.Model.Bytes
namespace Pycdlib.Spec

abbrev Path := List Bytes

inductive NS where
  | iso | joliet | udf
deriving DecidableEq, Repr, Inhabited

inductive Node where
  | dir
  | file (blob : Nat)
  | symlink (target : Bytes)
deriving DecidableEq, Repr, Inhabited

structure Entry where
  ns : NS
  path : Path
  node : Node
  hidden : Bool := false
  rrName : Bytes := []      -- Rock Ridge alternate name (ISO namespace only)
  mode : Nat := 0           -- POSIX mode recorded by Rock Ridge
deriving DecidableEq, Repr, Inhabited

structure Blob where
  id : Nat
  cid : Nat
  len : Nat
deriving DecidableEq, Repr, Inhabited

structure State where
  rr : Bool
  entries : List Entry := []
  blobs : List Blob := []
  next : Nat := 0
  bootBlobs : List Nat := []        -- blobs referenced by El Torito entries
deriving Repr, Inhabited

def State.find (s : State) (ns : NS) (p : Path) : Option Entry :=
  s.entries.find? fun e => e.ns = ns ∧ e.path = p

def State.isDir (s : State) (ns : NS) (p : Path) : Bool :=
  p.isEmpty || (match s.find ns p with
    | some e => e.node = Node.dir
    | none => false)

/-- a new name needs an existing parent directory and must not exist yet -/
def State.canAdd (s : State) (ns : NS) (p : Path) : Bool :=
  !p.isEmpty && s.isDir ns p.dropLast && (s.find ns p).isNone

def State.hasChildren (s : State) (ns : NS) (p : Path) : Bool :=
  s.entries.any fun e => e.ns = ns ∧ e.path.length = p.length + 1 ∧ e.path.dropLast = p

def State.refs (s : State) (b : Nat) : Nat :=
  (s.entries.filter fun e => e.node = Node.file b).length + (s.bootBlobs.filter (· = b)).length

/-- drop blobs nobody refers to -/
def State.gc (s : State) : State :=
  { s with blobs := s.blobs.filter fun b => s.refs b.id > 0 }

structure AddFp where
  cid : Nat
  len : Nat
  iso : Option Path := none
  rrName : Bytes := []
  joliet : Option Path := none
  udf : Option Path := none
  mode : Nat := 0o100444

inductive Op where
  | addFp (a : AddFp)
  | addDir (iso : Option Path) (rrName : Bytes) (joliet : Option Path) (udf : Option Path) (mode : Nat)
  | rmFile (ns : NS) (p : Path)
  | rmDir (iso : Option Path) (joliet : Option Path) (udf : Option Path)
  | addLink (oldNs : NS) (old : Path) (newNs : NS) (new : Path) (rrName : Bytes)
  | rmLink (ns : NS) (p : Path)
  | addSymlink (iso : Option Path) (rrName : Bytes) (rrTarget : Bytes) (joliet : Option Path)
      (udf : Option Path) (udfTarget : Bytes)
  | setHidden (ns : NS) (p : Path) (h : Bool)
  | reopen

def optAll (l : List (Option (NS × Path))) : List (NS × Path) := l.filterMap id

/-- writing and opening the image again: an empty file has no data extent, so an ISO9660 or Joliet name of
zero-length content can no longer be recognised as a link of anything — after a reopen each such name is a
content of its own.  UDF names of one content share a File Entry on disc and therefore stay together.
Nothing else changes. -/
def reopenStep (s : State) (acc : List Entry × List Blob × Nat × List (Nat × Nat)) (e : Entry) :
    List Entry × List Blob × Nat × List (Nat × Nat) :=
  match e.node with
  | .file b =>
    match s.blobs.find? (·.id = b) with
    | some bl =>
      if bl.len = 0 then
        if e.ns = .udf then
          match acc.2.2.2.find? (·.1 = b) with
          | some p => (acc.1 ++ [{ e with node := .file p.2 }], acc.2.1, acc.2.2.1, acc.2.2.2)
          | none => (acc.1 ++ [{ e with node := .file acc.2.2.1 }], acc.2.1 ++ [{ id := acc.2.2.1, cid := bl.cid, len := 0 }],
                     acc.2.2.1 + 1, acc.2.2.2 ++ [(b, acc.2.2.1)])
        else (acc.1 ++ [{ e with node := .file acc.2.2.1 }], acc.2.1 ++ [{ id := acc.2.2.1, cid := bl.cid, len := 0 }],
              acc.2.2.1 + 1, acc.2.2.2)
      else (acc.1 ++ [e], acc.2.1, acc.2.2.1, acc.2.2.2)
    | none => (acc.1 ++ [e], acc.2.1, acc.2.2.1, acc.2.2.2)
  | _ => (acc.1 ++ [e], acc.2.1, acc.2.2.1, acc.2.2.2)

def reopenState (s : State) : State :=
  let r := s.entries.foldl (reopenStep s) ([], [], s.next, [])
  { s with entries := r.1, blobs := s.blobs.filter (fun b => b.len ≠ 0) ++ r.2.1, next := r.2.2.1 }

/-- the entry one multi-namespace edit creates for one of its targets -/
def mkEntry (rr : Bool) (node : NS → Node) (rrName : Bytes) (mode : Nat) (t : NS × Path) : Entry :=
  { ns := t.1, path := t.2, node := node t.1, rrName := if t.1 = .iso then rrName else [],
    mode := if t.1 = .iso ∧ rr then mode else 0 }

def step (s : State) : Op → Option State
  | .addFp a =>
    let targets := optAll [a.iso.map (NS.iso, ·), a.joliet.map (NS.joliet, ·), a.udf.map (NS.udf, ·)]
    if targets.isEmpty then none
    else if !(targets.all fun (ns, p) => s.canAdd ns p) then none
    else
      let b := s.next
      let es := targets.map (mkEntry s.rr (fun _ => .file b) a.rrName a.mode)
      some { s with entries := s.entries ++ es, blobs := s.blobs ++ [{ id := b, cid := a.cid, len := a.len }],
                    next := b + 1 }
  | .addDir iso rrName joliet udf mode =>
    let targets := optAll [iso.map (NS.iso, ·), joliet.map (NS.joliet, ·), udf.map (NS.udf, ·)]
    if targets.isEmpty then none
    else if !(targets.all fun (ns, p) => s.canAdd ns p) then none
    else
      let es := targets.map (mkEntry s.rr (fun _ => .dir) rrName mode)
      some { s with entries := s.entries ++ es }
  | .rmFile ns p =>
    match s.find ns p with
    | some e =>
      match e.node with
      | .file b =>
        -- removes precisely the names of that content, in every namespace
        some ({ s with entries := s.entries.filter fun x => x.node ≠ Node.file b }).gc
      | .symlink _ => some { s with entries := s.entries.filter fun x => !(x.ns = ns ∧ x.path = p) }
      | .dir => none
    | none => none
  | .rmDir iso joliet udf =>
    let targets := optAll [iso.map (NS.iso, ·), joliet.map (NS.joliet, ·), udf.map (NS.udf, ·)]
    if targets.isEmpty then none
    else if !(targets.all fun (ns, p) => !p.isEmpty && s.isDir ns p && !s.hasChildren ns p) then none
    else some { s with entries := s.entries.filter fun x => !(targets.any fun (ns, p) => x.ns = ns ∧ x.path = p) }
  | .addLink oldNs oldP newNs newP rrName =>
    match s.find oldNs oldP with
    | some e =>
      match e.node with
      | .file b =>
        if !s.canAdd newNs newP then none
        else
          -- a link made from an ISO9660 name inherits that name's mode; made from a Joliet/UDF name no
          -- mode was ever given for it: any regular-file mode is acceptable (printed as `m*`)
          let mode := if oldNs = .iso then e.mode else 0
          let e' : Entry := { ns := newNs, path := newP, node := .file b,
                              rrName := if newNs = .iso then rrName else [],
                              mode := if newNs = .iso ∧ s.rr then mode else 0 }
          some { s with entries := s.entries ++ [e'] }
      | _ => none
    | none => none
  | .rmLink ns p =>
    match s.find ns p with
    | some e =>
      match e.node with
      | .dir => none
      | _ => some ({ s with entries := s.entries.filter fun x => !(x.ns = ns ∧ x.path = p) }).gc
    | none => none
  | .addSymlink iso rrName rrTarget joliet udf udfTarget =>
    let targets := optAll [iso.map (NS.iso, ·), joliet.map (NS.joliet, ·), udf.map (NS.udf, ·)]
    if targets.isEmpty then none
    else if !(targets.all fun (ns, p) => s.canAdd ns p) then none
    else
      let es := targets.map (mkEntry s.rr
        (fun ns => .symlink (if ns = .udf then udfTarget else if ns = .iso then rrTarget else [])) rrName 0o120555)
      some { s with entries := s.entries ++ es }
  | .setHidden ns p h =>
    match s.find ns p with
    | some _ => some { s with entries := s.entries.map fun x => if x.ns = ns ∧ x.path = p then { x with hidden := h } else x }
    | none => none
  | .reopen => some (reopenState s)

def run (s : State) : List Op → Option State
  | [] => some s
  | op :: ops => (step s op).bind (run · ops)

/-! ### the view, in the same textual form as the reader's entries -/

def content (cid i : Nat) : UInt8 := UInt8.ofNat ((cid * 37 + i * 11 + (i / 256) * 3 + 5) % 251)

def fnvContent (cid len : Nat) : UInt64 := Id.run do
  let mut h : UInt64 := 14695981039346656037
  for i in [0 : len] do
    h := (h ^^^ (content cid i).toUInt64) * 1099511628211
  return h

def pathStr (p : Path) : String :=
  if p.isEmpty then "/" else String.join (p.map fun c => "/" ++ hexs c)

def nsTag : NS → String
  | .iso => "I" | .joliet => "J" | .udf => "U"

/-- Rock Ridge logical path of an ISO entry: every component replaced by its alternate name -/
def rrPath (s : State) (p : Path) : Path :=
  (List.range p.length).map fun k =>
    let pre := p.take (k + 1)
    match s.find .iso pre with
    | some e => if e.rrName.isEmpty then pre.getLast! else e.rrName
    | none => pre.getLast!

def subdirs (s : State) (p : Path) : Nat :=
  (s.entries.filter fun e => e.ns = .iso ∧ e.node = Node.dir ∧ e.path.length = p.length + 1 ∧ e.path.dropLast = p).length

def view (s : State) : List String :=
  s.entries.flatMap fun e =>
    let h := if e.hidden then "h1" else "h0"
    let base : List String :=
      match e.node, e.ns with
      | .dir, .udf => [s!"U:D:{pathStr e.path}"]
      | .dir, ns => [s!"{nsTag ns}:D:{pathStr e.path}:{h}"]
      | .file b, ns =>
        match s.blobs.find? (·.id = b) with
        | some bl =>
          if ns = .udf then [s!"U:F:{pathStr e.path}:{bl.len}:{(fnvContent bl.cid bl.len).toNat}:b{b}"]
          else [s!"{nsTag ns}:F:{pathStr e.path}:{bl.len}:{(fnvContent bl.cid bl.len).toNat}:b{b}:{h}"]
        | none => [s!"{nsTag ns}:F:{pathStr e.path}:DANGLING"]
      | .symlink t, .udf => [s!"U:L:{pathStr e.path}:{hexs t}"]
      | .symlink _, ns => [s!"{nsTag ns}:F:{pathStr e.path}:0:{(fnvContent 0 0).toNat}:b-:{h}"]
    let rr : List String :=
      if e.ns = .iso ∧ s.rr then
        let lp := pathStr (rrPath s e.path)
        match e.node with
        | .dir => [s!"R:D:{lp}:m{e.mode}:n{2 + subdirs s e.path}"]
        | .file b =>
          match s.blobs.find? (·.id = b) with
          | some bl => [s!"R:F:{lp}:{bl.len}:{(fnvContent bl.cid bl.len).toNat}:b{b}:m{if e.mode = 0 then "*" else toString e.mode}:n1"]
          | none => []
        | .symlink t => [s!"R:L:{lp}:{hexs t}:m{e.mode}:n1"]
      else []
    base ++ rr

/-! ### protocol parsing (test infrastructure) -/

def parsePath (s : String) : Option Path :=
  if s = "/" then some []
  else match s.splitOn "/" with
    | "" :: comps => comps.mapM ofHex
    | _ => none

def parseNS (s : String) : Option NS :=
  if s = "i" then some .iso else if s = "j" then some .joliet else if s = "u" then some .udf else none

def kv (fields : List String) (k : String) : Option String :=
  fields.findSome? fun f => match f.splitOn "=" with
    | [a, b] => if a = k then some b else none
    | _ => none

def optPath (fields : List String) (k : String) : Option (Option Path) :=
  match kv fields k with
  | none => some none
  | some v => (parsePath v).map some

def parseOp (tok : String) : Option Op :=
  match tok.splitOn "," with
  | "addfp" :: f => do
    pure (.addFp { cid := ← (← kv f "c").toNat?, len := ← (← kv f "n").toNat?, iso := ← optPath f "i",
                   rrName := (← ofHex ((kv f "r").getD "-")), joliet := ← optPath f "j", udf := ← optPath f "u",
                   mode := ((kv f "m").bind String.toNat?).getD 0o100444 })
  | "adddir" :: f => do
    pure (.addDir (← optPath f "i") (← ofHex ((kv f "r").getD "-")) (← optPath f "j") (← optPath f "u")
      (((kv f "m").bind String.toNat?).getD 0o040555))
  | "rmfile" :: f => do pure (.rmFile (← parseNS (← kv f "ns")) (← parsePath (← kv f "p")))
  | "rmdir" :: f => do pure (.rmDir (← optPath f "i") (← optPath f "j") (← optPath f "u"))
  | "addlink" :: f => do
    pure (.addLink (← parseNS (← kv f "ons")) (← parsePath (← kv f "o")) (← parseNS (← kv f "nns"))
      (← parsePath (← kv f "p")) (← ofHex ((kv f "r").getD "-")))
  | "rmlink" :: f => do pure (.rmLink (← parseNS (← kv f "ns")) (← parsePath (← kv f "p")))
  | "addsym" :: f => do
    pure (.addSymlink (← optPath f "i") (← ofHex ((kv f "r").getD "-")) (← ofHex ((kv f "t").getD "-"))
      (← optPath f "j") (← optPath f "u") (← ofHex ((kv f "ut").getD "-")))
  | "hide" :: f => do pure (.setHidden (← parseNS (← kv f "ns")) (← parsePath (← kv f "p")) true)
  | "unhide" :: f => do pure (.setHidden (← parseNS (← kv f "ns")) (← parsePath (← kv f "p")) false)
  | ["reopen"] => some .reopen
  | _ => none

/-- `spec <rr:0|1> op op …` → the view, or `impossible@k` when op k cannot be applied -/
def runProtocol (rr : Bool) (toks : List String) : String := Id.run do
  let mut s : State := { rr := rr }
  let mut k := 0
  for t in toks do
    match parseOp t with
    | none => return s!"bad-op@{k}"
    | some op =>
      match step s op with
      | none => return s!"impossible@{k}"
      | some s' => s := s'
    k := k + 1
  return "|".intercalate (view s)

end Pycdlib.Spec
