/-
Model/PathTable — the volume descriptor's bookkeeping for its path tables and the volume space size.
Anchors: headervd.py `PrimaryOrSupplementaryVD.add_to_ptr_size` / `remove_from_ptr_size` / `add_to_space_size` /
`remove_from_space_size`; pycdlib.py `_add_to_ptr_size` / `_remove_from_ptr_size` (four extents — little- and
big-endian table, two each — are added to / removed from the space size when these return True).
The Generated/Kernel translations of the four methods are proved equal to these definitions in Props/Tie.
Mathlib-free.
-/
namespace Pycdlib.PathTable

structure PT where
  size : Nat        -- path_tbl_size: bytes of path table records
  extents : Nat     -- path_table_num_extents: extents reserved for ONE path table
deriving Repr, DecidableEq

def cdiv (a b : Nat) : Nat := (a + b - 1) / b

/-- `add_to_ptr_size`: the new state and whether extents have to be added -/
def add (s : PT) (n : Nat) : PT × Bool :=
  let size := s.size + n
  if cdiv size 4096 * 2 > s.extents then ({ size := size, extents := s.extents + 2 }, true)
  else ({ size := size, extents := s.extents }, false)

/-- `remove_from_ptr_size`: `none` = the "should never happen" exception -/
def remove (s : PT) (n : Nat) : Option (PT × Bool) :=
  let size := s.size - n
  let new := cdiv size 4096 * 2
  if new > s.extents then none
  else if new < s.extents then some ({ size := size, extents := s.extents - 2 }, true)
  else some ({ size := size, extents := s.extents }, false)

/-- the reservation is exact: two extents per started 4096 bytes -/
def Inv (s : PT) : Prop := s.extents = cdiv s.size 4096 * 2

inductive Op where
  | add (n : Nat)
  | remove (n : Nat)

/-- a history; the third component is the number of bytes added to the volume space size for path tables so far, minus
those removed (`_add_to_ptr_size` / `_remove_from_ptr_size`: 4 * 2048 per True), as an offset from `base` -/
def run : PT → Nat → List Op → Option (PT × Nat)
  | s, space, [] => some (s, space)
  | s, space, .add n :: ops =>
    let (s', grew) := add s n
    run s' (if grew then space + 4 * 2048 else space) ops
  | s, space, .remove n :: ops =>
    match remove s n with
    | none => none
    | some (s', shrank) => run s' (if shrank then space - 4 * 2048 else space) ops

/-- pycdlib.py `_add_to_ptr_size`: every copy of the PVD is told about the new record; the path tables exist once, so
the space they need (four extents) is charged once however many copies say "grew" -/
def addAll (copies : List PT) (n : Nat) : List PT × Nat :=
  let rs := copies.map (add · n)
  (rs.map (·.1), if rs.any (·.2) then 4 * 2048 else 0)

/-- the accounting before the repair: four extents per copy that says "grew" -/
def addAllOld (copies : List PT) (n : Nat) : List PT × Nat :=
  let rs := copies.map (add · n)
  (rs.map (·.1), (rs.filter (·.2)).length * (4 * 2048))

end Pycdlib.PathTable
