/-
Model/Names — identifier rules of pycdlib for the ISO9660 namespace.
Anchors: pycdlib/pycdlib.py `_check_d1_characters` (:60), `_split_iso9660_filename` (:75),
`_check_iso9660_filename` (:104), `_check_iso9660_directory` (:162),
`_interchange_level_from_filename/_directory` (:205,:239), `_check_path_depth` (:387),
utils.py `split_path` (:277).
Byte strings are `List UInt8`.  Mathlib-free.
-/
import Pycdlib.Model.Bytes
import Pycdlib.Model.Err
namespace Pycdlib

def cDot : UInt8 := 46
def cSemi : UInt8 := 59
def cSlash : UInt8 := 47

/-- `l.rsplit(c, 1)`: split at the *last* occurrence of `c`; `none` when `c` does not occur. -/
def splitLast {α : Type} [DecidableEq α] (c : α) : List α → Option (List α × List α)
  | [] => none
  | x :: xs =>
    match splitLast c xs with
    | some (pre, post) => some (x :: pre, post)
    | none => if x = c then some ([], xs) else none

/-- `_split_iso9660_filename`: (name, extension, version). -/
def splitIsoFilename (full : Bytes) : Bytes × Bytes × Bytes :=
  let (rest, version) := match splitLast cSemi full with
    | some (pre, post) => (pre, post)
    | none => (full, [])
  match splitLast cDot rest with
  | some (n, e) => (n, e, version)
  | none => (rest, [], version)

/-- A-Z, 0-9, `_`  (`_allowed_d1_characters`). -/
def isD1 (b : UInt8) : Bool :=
  (65 ≤ b.toNat && b.toNat ≤ 90) || (48 ≤ b.toNat && b.toNat ≤ 57) || b.toNat = 95

def allD1 (bs : Bytes) : Bool := bs.all isD1

def isDigit (b : UInt8) : Bool := 48 ≤ b.toNat && b.toNat ≤ 57

/-- value of a string of ASCII digits, most significant first. -/
def decVal (bs : Bytes) : Nat := bs.foldl (fun acc b => 10 * acc + (b.toNat - 48)) 0

/-- the version test of `_check_iso9660_filename`: empty, or ASCII digits with value in 1..32767. -/
def versionOk (v : Bytes) : Bool :=
  v.isEmpty || (v.all isDigit && 1 ≤ decVal v && decVal v ≤ 32767)

/-- `_check_iso9660_filename(fullname, interchange_level)`. -/
def checkIsoFilename (lvl : Nat) (full : Bytes) : Except Err Unit :=
  let (name, ext, ver) := splitIsoFilename full
  if !versionOk ver then .error .invalidInput
  else if name.isEmpty && ext.isEmpty then .error .invalidInput
  else if name.contains cSemi || ext.contains cSemi then .error .invalidInput
  else if lvl = 1 && (name.length > 8 || ext.length > 3) then .error .invalidInput
  else if lvl < 4 && !(allD1 name && allD1 ext) then .error .invalidInput
  else .ok ()

/-- `_check_iso9660_directory(fullname, interchange_level)`. -/
def checkIsoDirectory (lvl : Nat) (full : Bytes) : Except Err Unit :=
  if full.isEmpty then .error .invalidInput
  else if lvl = 1 && full.length > 8 then .error .invalidInput
  else if (lvl = 2 || lvl = 3) && full.length > 207 then .error .invalidInput
  else if lvl < 4 && !allD1 full then .error .invalidInput
  else .ok ()

/-- `_interchange_level_from_filename` (used while parsing an image). -/
def levelFromFilename (full : Bytes) : Nat :=
  let (name, ext, ver) := splitIsoFilename full
  if !versionOk ver then 3
  else if name.contains cSemi || ext.contains cSemi then 3
  else if name.length > 8 || ext.length > 3 then 3
  else if !(allD1 name && allD1 ext) then 3
  else 1

def levelFromDirectory (name : Bytes) : Nat :=
  if name.length > 8 then 3 else if !allD1 name then 3 else 1

/-- `bytes.split(b'/')`. -/
def splitOn (c : UInt8) : Bytes → List Bytes
  | [] => [[]]
  | x :: xs =>
    if x = c then [] :: splitOn c xs
    else match splitOn c xs with
      | [] => [[x]]
      | p :: ps => (x :: p) :: ps

/-- `utils.split_path`: refuses anything that does not start with `/` (an empty path raises IndexError). -/
def splitPath (p : Bytes) : Except Err (List Bytes) :=
  match p with
  | [] => .error (.py "IndexError")
  | x :: _ => if x = cSlash then .ok ((splitOn cSlash p).drop 1) else .error .invalidInput

/-- `_check_path_depth`. -/
def checkPathDepth (p : Bytes) : Except Err Unit :=
  match splitPath p with
  | .error e => .error e
  | .ok comps => if comps.length > 7 then .error .invalidInput else .ok ()

end Pycdlib
