/-
Model/Reader — an INDEPENDENT reader of images, written from the standards' field layouts
(ECMA-119 for volume descriptors, directories and path tables; SUSP 1.12 / RRIP 1.12 for Rock Ridge;
the Joliet specification for the UCS-2 supplementary descriptor; El Torito 1.0 for the boot catalog).
It shares no code with pycdlib and none with the mastering model: it is the decoder the fidelity
theorems are stated against and the oracle the checks run on the bytes pycdlib writes.

Output: a `Report` with
  * `errs`    — violated well-formedness clauses (C03/C08/C09/C11), each a short code plus location;
  * `allocs`  — every on-disc object found, as (label, first sector, sector count) (C04);
  * `entries` — the recovered views, one string per entry (C01/C02/C07/C08/C09);
  * `info`    — numbers copied out of descriptors.
Reading out of range yields 0 and records `oob`.  Traversals carry fuel (the number of sectors of the
image), so the reader is total; a directory cycle ends in the error `dir-cycle`.
Mathlib-free.
-/
import Pycdlib.Model.Bytes
namespace Pycdlib.Reader

structure Report where
  errs : Array String := #[]
  allocs : Array (String × Nat × Nat) := #[]
  entries : Array String := #[]
  info : Array String := #[]
deriving Inhabited

abbrev RM := StateM Report

def err (s : String) : RM Unit := modify fun r =>
  if r.errs.size < 200 then { r with errs := r.errs.push s } else r
def alloc (label : String) (first count : Nat) : RM Unit := modify fun r =>
  { r with allocs := r.allocs.push (label, first, count) }
def entry (s : String) : RM Unit := modify fun r => { r with entries := r.entries.push s }
def info (s : String) : RM Unit := modify fun r => { r with info := r.info.push s }

structure Img where
  d : ByteArray

namespace Img
def size (i : Img) : Nat := i.d.size
def sectors (i : Img) : Nat := i.d.size / 2048
def b (i : Img) (p : Nat) : Nat := if h : p < i.d.size then (i.d[p]'h).toNat else 0
def le16 (i : Img) (p : Nat) : Nat := i.b p + 256 * i.b (p + 1)
def be16 (i : Img) (p : Nat) : Nat := i.b (p + 1) + 256 * i.b p
def le32 (i : Img) (p : Nat) : Nat := i.le16 p + 65536 * i.le16 (p + 2)
def be32 (i : Img) (p : Nat) : Nat := i.be16 (p + 2) + 65536 * i.be16 p
def le64 (i : Img) (p : Nat) : Nat := i.le32 p + 4294967296 * i.le32 (p + 4)
def slice (i : Img) (p n : Nat) : List UInt8 := (i.d.extract p (p + n)).toList
def inRange (i : Img) (p n : Nat) : Bool := p + n ≤ i.d.size
end Img

def hex (l : List UInt8) : String := Pycdlib.hexs l

/-- both-endian 16-bit field (7.2.3); records an error when the two copies disagree -/
def both16 (i : Img) (p : Nat) (what : String) : RM Nat := do
  if i.le16 p ≠ i.be16 (p + 2) then err s!"both16-mismatch:{what}@{p}"
  return i.le16 p

/-- both-endian 32-bit field (7.3.3) -/
def both32 (i : Img) (p : Nat) (what : String) : RM Nat := do
  if i.le32 p ≠ i.be32 (p + 4) then err s!"both32-mismatch:{what}@{p}"
  return i.le32 p

def fnv1a (l : ByteArray) (p n : Nat) : UInt64 := Id.run do
  let mut h : UInt64 := 14695981039346656037
  for k in [p : p + n] do
    h := (h ^^^ (l.get! k).toUInt64) * 1099511628211
  return h

/-- UTF-8 encoding of a code point -/
def utf8 (c : Nat) : List UInt8 :=
  if c < 0x80 then [c.toUInt8]
  else if c < 0x800 then [(0xC0 + c / 64).toUInt8, (0x80 + c % 64).toUInt8]
  else if c < 0x10000 then [(0xE0 + c / 4096).toUInt8, (0x80 + c / 64 % 64).toUInt8, (0x80 + c % 64).toUInt8]
  else [(0xF0 + c / 262144).toUInt8, (0x80 + c / 4096 % 64).toUInt8, (0x80 + c / 64 % 64).toUInt8, (0x80 + c % 64).toUInt8]

/-- UTF-16BE bytes → UTF-8 bytes (surrogate pairs combined; a lone surrogate is passed through as is) -/
def utf16beToUtf8 : List UInt8 → List UInt8
  | a :: b :: c :: d :: rest =>
    let u := a.toNat * 256 + b.toNat
    let v := c.toNat * 256 + d.toNat
    if 0xD800 ≤ u ∧ u < 0xDC00 ∧ 0xDC00 ≤ v ∧ v < 0xE000 then
      utf8 (0x10000 + (u - 0xD800) * 1024 + (v - 0xDC00)) ++ utf16beToUtf8 rest
    else utf8 u ++ utf16beToUtf8 (c :: d :: rest)
  | [a, b] => utf8 (a.toNat * 256 + b.toNat)
  | _ => []

/-- Latin-1 bytes → UTF-8 -/
def latin1ToUtf8 (l : List UInt8) : List UInt8 := l.flatMap fun x => utf8 x.toNat

inductive NS where | iso | joliet
deriving DecidableEq, Inhabited

def NS.tag : NS → String
  | .iso => "I"
  | .joliet => "J"

/-! ### SUSP / Rock Ridge -/

structure RR where
  present : Bool := false
  name : List UInt8 := []
  hasNM : Bool := false
  mode : Option Nat := none
  nlink : Option Nat := none
  symlink : Option (List UInt8) := none
  slCont : Bool := false            -- previous SL component had CONTINUE
  slFinal : Bool := false           -- an SL entry without the CONTINUE flag has been seen: the target is complete
  slNeedSep : Bool := false
  cl : Option Nat := none
  pl : Option Nat := none
  re : Bool := false
  sp : Bool := false
  er : Bool := false
  pxLen : Nat := 0
  tf : Nat := 0
  ce : Option (Nat × Nat × Nat) := none
deriving Inhabited

/-- append the components of one SL entry body (after the flags byte) to the target under construction -/
def slComponents (where_ : String) : List UInt8 → RR → Nat → RM RR
  | [], r, _ => pure r
  | [_], r, _ => do err s!"sl-truncated:{where_}"; pure r
  | fl :: ln :: rest, r, fuel =>
    match fuel with
    | 0 => pure r
    | fuel + 1 => do
      let n := ln.toNat
      if rest.length < n then
        err s!"sl-component-overrun:{where_}"
        return r
      let body := rest.take n
      let f := fl.toNat
      let piece : List UInt8 :=
        if f / 2 % 2 = 1 then [46]                 -- CURRENT  "."
        else if f / 4 % 2 = 1 then [46, 46]        -- PARENT   ".."
        else if f / 8 % 2 = 1 then []              -- ROOT     (leading "/")
        else body
      let cur := r.symlink.getD []
      let isRoot := f / 8 % 2 = 1
      -- separator: between components, not after a CONTINUE piece, not before the first
      let sep : List UInt8 := if r.slNeedSep && !r.slCont then [47] else []
      let cur' := if isRoot then cur ++ sep ++ [47] else cur ++ sep ++ piece
      let r' := { r with symlink := some cur', slCont := f % 2 = 1,
                         slNeedSep := !(isRoot) || false }
      -- after ROOT the "/" is already there: no separator before the next component
      let r' := if isRoot then { r' with slNeedSep := false } else r'
      slComponents where_ (rest.drop n) r' fuel

/-- parse the SUSP entries of one system-use area (or continuation area) -/
def suspArea (i : Img) (where_ : String) (isRootDot : Bool) : List UInt8 → RR → Nat → RM RR
  | [], r, _ => pure r
  | l, r, fuel =>
    match fuel with
    | 0 => pure r
    | fuel + 1 => do
      if l.length < 4 then
        -- up to 3 bytes of padding are allowed at the end of a system-use area
        if l.any (· ≠ 0) then err s!"susp-trailing-garbage:{where_}"
        return r
      let s0 := l[0]!.toNat; let s1 := l[1]!.toNat; let len := l[2]!.toNat; let ver := l[3]!.toNat
      if s0 = 0 ∧ s1 = 0 then
        if l.any (· ≠ 0) then err s!"susp-trailing-garbage:{where_}"
        return r
      if len < 4 ∨ len > l.length then
        err s!"susp-entry-length:{where_}:{s0}.{s1}:{len}"
        return r
      let body := (l.take len).drop 4
      let rest := l.drop len
      if ver ≠ 1 then err s!"susp-version:{where_}:{s0}.{s1}"
      let sig := String.ofList [Char.ofNat s0, Char.ofNat s1]
      let r := { r with present := true }
      let mut r := r
      if sig = "SP" then
        if len ≠ 7 ∨ body[0]! ≠ 0xBE ∨ body[1]! ≠ 0xEF then err s!"sp-malformed:{where_}"
        if !isRootDot then err s!"sp-not-in-root-dot:{where_}"
        r := { r with sp := true }
      else if sig = "CE" then
        if len ≠ 28 then err s!"ce-length:{where_}"
        else
          let bl := ofLE (body.take 4); let bl' := ofBE ((body.drop 4).take 4)
          let of := ofLE ((body.drop 8).take 4); let of' := ofBE ((body.drop 12).take 4)
          let ln := ofLE ((body.drop 16).take 4); let ln' := ofBE ((body.drop 20).take 4)
          if bl ≠ bl' ∨ of ≠ of' ∨ ln ≠ ln' then err s!"ce-both-endian:{where_}"
          if r.ce.isSome then err s!"ce-twice:{where_}"
          r := { r with ce := some (bl, of, ln) }
      else if sig = "NM" then
        if len < 5 then err s!"nm-length:{where_}"
        else
          let fl := body[0]!.toNat
          let piece := body.drop 1
          -- flags: 1 CONTINUE, 2 CURRENT, 4 PARENT
          if fl / 2 % 2 = 1 ∨ fl / 4 % 2 = 1 then
            r := { r with hasNM := true }
          else
            r := { r with hasNM := true, name := r.name ++ piece }
      else if sig = "PX" then
        if len ≠ 36 ∧ len ≠ 44 then err s!"px-length:{where_}:{len}"
        else
          let m := ofLE (body.take 4); let m' := ofBE ((body.drop 4).take 4)
          let n := ofLE ((body.drop 8).take 4); let n' := ofBE ((body.drop 12).take 4)
          if m ≠ m' ∨ n ≠ n' then err s!"px-both-endian:{where_}"
          r := { r with mode := some m, nlink := some n, pxLen := len }
      else if sig = "SL" then
        if len < 5 then err s!"sl-length:{where_}"
        else
          -- RRIP 4.1.3: bit 0 of the SL flags says that the target continues in the next SL entry; after an entry
          -- without it the target is complete, and a reader stops there
          if r.slFinal then err s!"sl-after-final:{where_}"
          else
            let r0 := if r.symlink.isNone then { r with symlink := some [] } else r
            let r1 ← slComponents where_ (body.drop 1) r0 300
            r := { r1 with slFinal := body[0]!.toNat % 2 = 0 }
      else if sig = "TF" then
        let fl := body[0]!.toNat
        let per := if fl / 128 % 2 = 1 then 17 else 7
        let cnt := ((List.range 7).filter fun k => fl / 2 ^ k % 2 = 1).length
        if len ≠ 5 + per * cnt then err s!"tf-length:{where_}"
        r := { r with tf := r.tf + 1 }
      else if sig = "CL" then
        if len ≠ 12 then err s!"cl-length:{where_}"
        else
          let a := ofLE (body.take 4); let a' := ofBE ((body.drop 4).take 4)
          if a ≠ a' then err s!"cl-both-endian:{where_}"
          r := { r with cl := some a }
      else if sig = "PL" then
        if len ≠ 12 then err s!"pl-length:{where_}"
        else
          let a := ofLE (body.take 4); let a' := ofBE ((body.drop 4).take 4)
          if a ≠ a' then err s!"pl-both-endian:{where_}"
          r := { r with pl := some a }
      else if sig = "RE" then
        if len ≠ 4 then err s!"re-length:{where_}"
        r := { r with re := true }
      else if sig = "ER" then
        if len < 8 then err s!"er-length:{where_}"
        else
          let a := body[0]!.toNat; let b := body[1]!.toNat; let c := body[2]!.toNat
          if len ≠ 8 + a + b + c then err s!"er-length-sum:{where_}"
        r := { r with er := true }
      else if sig = "RR" then
        if len ≠ 5 then err s!"rr-length:{where_}"
      else if sig = "ST" then
        return r
      else if sig = "PD" ∨ sig = "ES" ∨ sig = "PN" ∨ sig = "SF" then
        pure ()
      else
        err s!"susp-unknown-entry:{where_}:{sig}"
      suspArea i where_ isRootDot rest r fuel

/-- system-use area of one record, following continuation areas -/
def readSusp (i : Img) (where_ : String) (isRootDot : Bool) (su : List UInt8) (skip : Nat) : RM RR := do
  let su := su.drop skip
  let mut r ← suspArea i where_ isRootDot su {} 200
  let mut fuel := 50
  while r.ce.isSome ∧ fuel > 0 do
    fuel := fuel - 1
    let (bl, of, ln) := r.ce.get!
    r := { r with ce := none }
    if of + ln > 2048 then err s!"ce-leaves-sector:{where_}:{bl}:{of}:{ln}"
    if !(i.inRange (bl * 2048 + of) ln) then
      err s!"ce-outside-image:{where_}:{bl}"
    else
      alloc s!"cearea:{where_}" (bl * 2048 + of) ln       -- byte-granular; checked separately from sector allocs
      r ← suspArea i (where_ ++ "+ce") false (i.slice (bl * 2048 + of) ln) r 200
  return r

/-! ### ECMA-119 directories -/

structure Rec where
  pos : Nat            -- absolute byte offset of the record
  len : Nat
  extent : Nat
  dataLen : Nat
  flags : Nat
  ident : List UInt8
  su : List UInt8
  xattr : Nat
deriving Inhabited

def readRec (i : Img) (p : Nat) (what : String) : RM Rec := do
  let len := i.b p
  let ext ← both32 i (p + 2) s!"extent:{what}"
  let dl ← both32 i (p + 10) s!"datalen:{what}"
  let _ ← both16 i (p + 28) s!"seqnum:{what}"
  let lfi := i.b (p + 32)
  let idEnd := 33 + lfi + (if lfi % 2 = 0 then 1 else 0)
  if idEnd > len then err s!"ident-overruns-record:{what}@{p}"
  if lfi % 2 = 0 ∧ i.b (p + 33 + lfi) ≠ 0 then err s!"ident-pad-nonzero:{what}@{p}"
  if len % 2 = 1 then err s!"record-length-odd:{what}@{p}"
  return { pos := p, len := len, extent := ext, dataLen := dl, flags := i.b (p + 25),
           ident := i.slice (p + 33) lfi, su := i.slice (p + idEnd) (len - idEnd), xattr := i.b (p + 1) }

/-- all records of a directory extent, in order; checks packing inside sectors -/
def dirRecords (i : Img) (extent len : Nat) (what : String) : RM (Array Rec) := do
  let base := extent * 2048
  let mut out : Array Rec := #[]
  let mut pos := 0
  let mut fuel := len / 34 + len / 2048 + 4
  if len % 2048 ≠ 0 then err s!"dir-length-not-sector-multiple:{what}:{len}"
  if !(i.inRange base len) then
    err s!"dir-outside-image:{what}:{extent}:{len}"
    return out
  while pos < len ∧ fuel > 0 do
    fuel := fuel - 1
    let l := i.b (base + pos)
    if l = 0 then
      -- the rest of the sector must be zero padding
      let nxt := (pos / 2048 + 1) * 2048
      if (i.slice (base + pos) (nxt - pos)).any (· ≠ 0) then err s!"dir-padding-nonzero:{what}@{pos}"
      pos := nxt
    else
      if pos % 2048 + l > 2048 then
        err s!"record-straddles-sector:{what}@{pos}"
        pos := (pos / 2048 + 1) * 2048
      else if l < 34 then
        err s!"record-too-short:{what}@{pos}"
        pos := (pos / 2048 + 1) * 2048
      else
        let r ← readRec i (base + pos) what
        out := out.push r
        pos := pos + l
  return out

def splitAtLast (c : UInt8) (l : List UInt8) : List UInt8 × Option (List UInt8) :=
  match l.reverse.span (· ≠ c) with
  | (post, _ :: pre) => (pre.reverse, some post.reverse)
  | (_, []) => (l, none)

def padCmp (a b : List UInt8) (pad : UInt8) : Ordering :=
  let n := max a.length b.length
  let a' := a ++ List.replicate (n - a.length) pad
  let b' := b ++ List.replicate (n - b.length) pad
  compare (a'.map (·.toNat)) (b'.map (·.toNat))

def verNum (v : Option (List UInt8)) : Nat :=
  match v with
  | none => 0
  | some d => d.foldl (fun acc x => acc * 10 + (x.toNat - 48)) 0

/-- ECMA-119 9.3 order of two file identifiers (name, extension padded with spaces; version descending) -/
def ecmaLe (a b : List UInt8) : Bool :=
  let (ra, va) := splitAtLast 59 a
  let (rb, vb) := splitAtLast 59 b
  let (na, ea) := splitAtLast 46 ra
  let (nb, eb) := splitAtLast 46 rb
  match padCmp na nb 32 with
  | .lt => true
  | .gt => false
  | .eq =>
    match padCmp (ea.getD []) (eb.getD []) 32 with
    | .lt => true
    | .gt => false
    | .eq => verNum va ≥ verNum vb

def rawLt (a b : List UInt8) : Bool := compare (a.map (·.toNat)) (b.map (·.toNat)) == .lt

def pathStr (comps : List (List UInt8)) : String :=
  if comps.isEmpty then "/" else String.join (comps.map fun c => "/" ++ hex c)

structure DirJob where
  extent : Nat
  len : Nat
  parentExtent : Nat
  parentLen : Nat
  path : List (List UInt8)       -- physical path (identifiers)
  num : Nat                       -- directory number in the path table (1 = root)
  parentNum : Nat
deriving Inhabited

/-- One entry of the physical tree, kept for the Rock Ridge logical view. -/
structure Phys where
  ns : NS
  path : List (List UInt8)
  isDir : Bool
  extent : Nat
  len : Nat
  flags : Nat
  rr : RR
  selfRR : RR            -- for directories: the RR of their "." record (PX/nlink live there too)
deriving Inhabited

structure WalkOut where
  dirs : Array (Nat × Nat × List UInt8 × Nat)   -- (extent, parentNum, ident, level) in BFS order
  phys : Array Phys
deriving Inhabited

/-- breadth-first walk of one ECMA-119 tree (primary or supplementary) -/
def walk (i : Img) (ns : NS) (rootExtent rootLen : Nat) (xaSkip : Bool) : RM WalkOut := do
  let mut queue : Array DirJob := #[{ extent := rootExtent, len := rootLen, parentExtent := rootExtent,
                                      parentLen := rootLen, path := [], num := 1, parentNum := 1 }]
  let mut qi := 0
  let mut dirs : Array (Nat × Nat × List UInt8 × Nat) := #[(rootExtent, 1, [], 0)]
  let mut phys : Array Phys := #[]
  let mut seen : Array Nat := #[rootExtent]
  let mut fuel := i.sectors + 8
  let tag := ns.tag
  while qi < queue.size ∧ fuel > 0 do
    fuel := fuel - 1
    let job := queue[qi]!
    qi := qi + 1
    let what := s!"{tag}{pathStr job.path}"
    alloc s!"dir:{what}" job.extent ((job.len + 2047) / 2048)
    let recs ← dirRecords i job.extent job.len what
    if recs.size < 2 then
      err s!"dir-missing-dot-records:{what}"
      continue
    let dot := recs[0]!
    let dotdot := recs[1]!
    if dot.ident ≠ [0] then err s!"first-record-not-dot:{what}"
    if dotdot.ident ≠ [1] then err s!"second-record-not-dotdot:{what}"
    if dot.extent ≠ job.extent then err s!"dot-extent:{what}:{dot.extent}!={job.extent}"
    if dot.dataLen ≠ job.len then err s!"dot-length:{what}:{dot.dataLen}!={job.len}"
    if dotdot.extent ≠ job.parentExtent then err s!"dotdot-extent:{what}:{dotdot.extent}!={job.parentExtent}"
    if dotdot.dataLen ≠ job.parentLen then err s!"dotdot-length:{what}:{dotdot.dataLen}!={job.parentLen}"
    if dot.flags / 2 % 2 = 0 ∨ dotdot.flags / 2 % 2 = 0 then err s!"dot-not-directory:{what}"
    -- Rock Ridge on "." (SP/ER live in the root's, PX everywhere) and ".."
    let mut selfRR : RR := {}
    let mut dotdotRR : RR := {}
    if ns = .iso then
      let skipXa (su : List UInt8) : Nat :=
        if xaSkip ∧ su.length ≥ 14 ∧ su[6]! = 88 ∧ su[7]! = 65 then 14 else 0
      selfRR ← readSusp i s!"{what}/." (job.path.isEmpty) dot.su (skipXa dot.su)
      dotdotRR ← readSusp i s!"{what}/.." false dotdot.su (skipXa dotdot.su)
      if job.path.isEmpty ∧ selfRR.present ∧ !selfRR.sp then err s!"root-dot-without-sp:{what}"
      phys := phys.push { ns := ns, path := job.path ++ [[0]], isDir := true, extent := dot.extent, len := dot.dataLen,
                          flags := dot.flags, rr := selfRR, selfRR := selfRR }
      phys := phys.push { ns := ns, path := job.path ++ [[1]], isDir := true, extent := dotdot.extent,
                          len := dotdot.dataLen, flags := dotdot.flags, rr := dotdotRR, selfRR := dotdotRR }
    -- the remaining records
    let mut prev : Option Rec := none
    let mut k := 2
    let mut mextBase : Option (List UInt8 × Nat × Nat × Nat) := none   -- ident, first extent, total len, flags
    while k < recs.size do
      let r := recs[k]!
      k := k + 1
      if r.ident = [0] ∨ r.ident = [1] then err s!"extra-dot-record:{what}"
      if r.ident.isEmpty then err s!"empty-identifier:{what}"
      if r.xattr ≠ 0 then err s!"xattr-nonzero:{what}/{hex r.ident}"
      -- order and uniqueness
      if let some p := prev then
        let sameChain := p.ident = r.ident ∧ p.flags / 128 % 2 = 1
        if !sameChain then
          if p.ident = r.ident then err s!"duplicate-identifier:{what}/{hex r.ident}"
          else
            if ns = .iso then
              if !(rawLt p.ident r.ident) then err s!"unsorted-raw:{what}/{hex r.ident}"
              else if !(ecmaLe p.ident r.ident) then err s!"unsorted-ecma:{what}/{hex r.ident}"
            else
              if !(rawLt p.ident r.ident) then err s!"unsorted-raw:{what}/{hex r.ident}"
      prev := some r
      let isDir := r.flags / 2 % 2 = 1
      let rr ← if ns = .iso then
          let skip := if xaSkip ∧ r.su.length ≥ 14 ∧ r.su[6]! = 88 ∧ r.su[7]! = 65 then 14 else 0
          readSusp i s!"{what}/{hex r.ident}" false r.su skip
        else pure {}
      if isDir then
        if seen.contains r.extent then
          err s!"dir-cycle-or-shared-extent:{what}/{hex r.ident}"
        else if rr.cl.isSome then
          err s!"cl-on-directory:{what}/{hex r.ident}"
        else
          seen := seen.push r.extent
          let num := dirs.size + 1
          dirs := dirs.push (r.extent, job.num, r.ident, job.path.length + 1)
          queue := queue.push { extent := r.extent, len := r.dataLen, parentExtent := job.extent,
                                parentLen := job.len, path := job.path ++ [r.ident], num := num, parentNum := job.num }
        phys := phys.push { ns := ns, path := job.path ++ [r.ident], isDir := true, extent := r.extent, len := r.dataLen,
                            flags := r.flags, rr := rr, selfRR := {} }
      else
        -- files; multi-extent chains are merged into one entry
        if r.flags / 128 % 2 = 1 then
          match mextBase with
          | none => mextBase := some (r.ident, r.extent, r.dataLen, r.flags)
          | some (id0, e0, l0, f0) =>
            if e0 + (l0 + 2047) / 2048 ≠ r.extent then err s!"multi-extent-not-contiguous:{what}/{hex r.ident}"
            mextBase := some (id0, e0, l0 + r.dataLen, f0)
        else
          let (e0, l0) ← match mextBase with
            | none => pure (r.extent, r.dataLen)
            | some (id0, e0, l0, _) => do
              if id0 ≠ r.ident then err s!"multi-extent-ident-mismatch:{what}/{hex r.ident}"
              if e0 + (l0 + 2047) / 2048 ≠ r.extent then err s!"multi-extent-not-contiguous:{what}/{hex r.ident}"
              pure (e0, l0 + r.dataLen)
          mextBase := none
          phys := phys.push { ns := ns, path := job.path ++ [r.ident], isDir := false, extent := e0, len := l0,
                              flags := r.flags, rr := rr, selfRR := {} }
    if mextBase.isSome then err s!"multi-extent-chain-unterminated:{what}"
  if fuel = 0 then err s!"walk-fuel-exhausted:{tag}"
  return { dirs := dirs, phys := phys }

/-- path tables: L and M must agree, list the directories in BFS order with correct parent numbers -/
def checkPathTables (i : Img) (tag : String) (ptSize lLoc mLoc : Nat) (w : WalkOut) : RM Unit := do
  let nsec := (ptSize + 2047) / 2048
  alloc s!"pt:{tag}:le" lLoc (max nsec 1)
  alloc s!"pt:{tag}:be" mLoc (max nsec 1)
  let readPT (loc : Nat) (be : Bool) : RM (Array (Nat × Nat × List UInt8)) := do
    let mut out := #[]
    let mut p := 0
    let mut fuel := ptSize / 8 + 2
    while p < ptSize ∧ fuel > 0 do
      fuel := fuel - 1
      let base := loc * 2048 + p
      let ld := i.b base
      if ld = 0 then
        err s!"pt-zero-length-identifier:{tag}@{p}"
        break
      let ext := if be then i.be32 (base + 2) else i.le32 (base + 2)
      let par := if be then i.be16 (base + 6) else i.le16 (base + 6)
      if i.b (base + 1) ≠ 0 then err s!"pt-xattr-nonzero:{tag}@{p}"
      out := out.push (ext, par, i.slice (base + 8) ld)
      if ld % 2 = 1 ∧ i.b (base + 8 + ld) ≠ 0 then err s!"pt-pad-nonzero:{tag}@{p}"
      p := p + 8 + ld + ld % 2
    if p ≠ ptSize then err s!"pt-size-mismatch:{tag}:{p}!={ptSize}"
    return out
  let l ← readPT lLoc false
  let m ← readPT mLoc true
  if l ≠ m then err s!"pt-le-be-differ:{tag}"
  -- expected: BFS order, root identifier 0x00, parent numbers
  let expected := w.dirs.map fun (ext, par, ident, _) => (ext, par, if ident.isEmpty then [0] else ident)
  if l.size ≠ expected.size then err s!"pt-count:{tag}:{l.size}!={expected.size}"
  else
    for k in [0 : l.size] do
      let (e1, p1, i1) := l[k]!
      let (e2, p2, i2) := expected[k]!
      if i1 ≠ i2 then err s!"pt-order-or-ident:{tag}#{k + 1}"
      else if e1 ≠ e2 then err s!"pt-extent:{tag}#{k + 1}:{e1}!={e2}"
      else if p1 ≠ p2 then err s!"pt-parent:{tag}#{k + 1}:{p1}!={p2}"
  -- standard order: ascending level, then parent number, then identifier
  for k in [1 : w.dirs.size] do
    let (_, pa, ia, la) := w.dirs[k - 1]!
    let (_, pb, ib, lb) := w.dirs[k]!
    if la > lb ∨ (la = lb ∧ pa > pb) ∨ (la = lb ∧ pa = pb ∧ !(rawLt ia ib) ∧ k > 1) then
      err s!"pt-not-in-standard-order:{tag}#{k + 1}"

/-! ### Volume descriptors -/

structure VD where
  sector : Nat
  kind : Nat            -- 0 boot, 1 primary, 2 supplementary, 255 terminator
  version : Nat
  isJoliet : Bool
  spaceSize : Nat
  ptSize : Nat
  lLoc : Nat
  mLoc : Nat
  rootExtent : Nat
  rootLen : Nat
  blockSize : Nat
deriving Inhabited

def readVD (i : Img) (sec : Nat) : RM VD := do
  let p := sec * 2048
  let kind := i.b p
  let ver := i.b (p + 6)
  if kind = 1 ∨ kind = 2 then
    let what := s!"vd{sec}"
    let space ← both32 i (p + 80) s!"space:{what}"
    let _ ← both16 i (p + 120) s!"setsize:{what}"
    let _ ← both16 i (p + 124) s!"seqnum:{what}"
    let bs ← both16 i (p + 128) s!"blocksize:{what}"
    let pts ← both32 i (p + 132) s!"ptsize:{what}"
    let root ← readRec i (p + 156) s!"rootrec:{what}"
    if root.len ≠ 34 then err s!"root-record-length:{what}"
    let esc := i.slice (p + 88) 3
    let isJ := kind = 2 ∧ (esc = [0x25, 0x2F, 0x40] ∨ esc = [0x25, 0x2F, 0x43] ∨ esc = [0x25, 0x2F, 0x45])
    if i.b (p + 881) ≠ ver then err s!"file-structure-version:{what}"
    return { sector := sec, kind := kind, version := ver, isJoliet := isJ, spaceSize := space, ptSize := pts,
             lLoc := i.le32 (p + 140), mLoc := i.be32 (p + 148), rootExtent := root.extent,
             rootLen := root.dataLen, blockSize := bs }
  else
    return { sector := sec, kind := kind, version := ver, isJoliet := false, spaceSize := 0, ptSize := 0, lLoc := 0,
             mLoc := 0, rootExtent := 0, rootLen := 0, blockSize := 0 }

def fileEntryStr (ns : String) (path : List (List UInt8)) (extent len : Nat) (hash : UInt64) (hidden : Bool) : String :=
  s!"{ns}:F:{pathStr path}:{len}:{hash.toNat}:{extent}:h{if hidden then 1 else 0}"

/-- emit the plain (physical) view of one tree -/
def emitPhys (i : Img) (tagNs : String) (phys : Array Phys) (decodeName : List UInt8 → List UInt8) : RM Unit := do
  for p in phys do
    let last := p.path.getLast!
    if last = [0] ∨ last = [1] then continue
    let path := p.path.map decodeName
    let hidden := p.flags % 2 = 1
    if p.isDir then
      entry s!"{tagNs}:D:{pathStr path}:h{if hidden then 1 else 0}"
    else if p.rr.cl.isSome then
      -- RRIP 4.1.5.1: the placeholder of a relocated directory; its own extent and length mean nothing, CL names the
      -- real directory (resolved, and checked against RE / PL, by emitRR)
      entry s!"{tagNs}:P:{pathStr path}"
    else
      if p.len > 0 then
        if !(i.inRange (p.extent * 2048) p.len) then err s!"file-outside-image:{tagNs}{pathStr path}"
        alloc s!"file:{tagNs}{pathStr path}" p.extent ((p.len + 2047) / 2048)
      let h := if p.len > 0 ∧ i.inRange (p.extent * 2048) p.len then fnv1a i.d (p.extent * 2048) p.len else 14695981039346656037
      entry (fileEntryStr tagNs path p.extent p.len h hidden)

/-- the Rock Ridge logical view: names from NM, types from PX/SL, relocation undone via CL/PL/RE -/
def emitRR (i : Img) (phys : Array Phys) : RM Unit := do
  -- index directories by extent for CL resolution, and "." records for per-directory attributes
  let isoPhys := phys.filter fun p => p.ns = .iso
  if !(isoPhys.any fun p => p.rr.present) then return
  let dirByExtent (e : Nat) : Option Phys :=
    isoPhys.find? fun p => p.isDir ∧ p.extent = e ∧ p.path.getLast! ≠ [0] ∧ p.path.getLast! ≠ [1]
  let dotOf (path : List (List UInt8)) : Option Phys :=
    isoPhys.find? fun p => p.path = path ++ [[0]]
  -- logical path of a physical entry: replace each component by its RR name; relocated directories
  -- (RE) are reached through the CL placeholder instead, so they are skipped here
  let rrNameOf (p : Phys) : List UInt8 := if p.rr.hasNM then p.rr.name else p.path.getLast!
  let rec logicalPath (fuel : Nat) (path : List (List UInt8)) : Option (List (List UInt8)) :=
    match fuel with
    | 0 => none
    | fuel + 1 =>
      if path.isEmpty then some [] else
      let parent := path.dropLast
      match isoPhys.find? fun q => q.path = path ∧ q.path.getLast! ≠ [0] ∧ q.path.getLast! ≠ [1] with
      | none => none
      | some q =>
        if q.rr.re then
          -- relocated: the logical parent is the directory holding the CL record that points here
          match isoPhys.find? fun c => c.rr.cl = some q.extent with
          | none => none
          | some c => (logicalPath fuel c.path.dropLast).map (· ++ [rrNameOf c])
        else (logicalPath fuel parent).map (· ++ [rrNameOf q])
  for p in isoPhys do
    let last := p.path.getLast!
    if last = [0] ∨ last = [1] then
      -- PL on ".." of a relocated directory must point at the logical parent
      continue
    if !p.rr.present then
      err s!"rr-missing-on-record:{pathStr p.path}"
      continue
    if p.rr.re then continue                 -- shown through its CL placeholder
    -- the RR_MOVED-style container is an ordinary directory in the logical view as pycdlib builds it
    let lp := logicalPath 64 p.path
    match lp with
    | none => err s!"rr-logical-path-unresolved:{pathStr p.path}"
    | some lp =>
      if !p.rr.hasNM then err s!"rr-missing-nm:{pathStr p.path}"
      match p.rr.cl with
      | some tgt =>
        -- placeholder for a relocated directory: must land on a directory whose record carries RE
        match dirByExtent tgt with
        | none => err s!"cl-target-not-a-directory:{pathStr p.path}:{tgt}"
        | some d =>
          if !d.rr.re then err s!"cl-target-without-re:{pathStr p.path}"
          let dd := isoPhys.find? fun q => q.path = d.path ++ [[1]]
          match dd with
          | some q =>
            match q.rr.pl with
            | none => err s!"relocated-dotdot-without-pl:{pathStr d.path}"
            | some plx =>
              -- PL must be the extent of the directory that holds the CL placeholder
              let holder := isoPhys.find? fun h => h.isDir ∧ h.path = p.path.dropLast ∧ true
              let holderExtent := match holder with
                | some h => h.extent
                | none => (isoPhys.find? fun h => h.path = [[0]]).map (·.extent) |>.getD 0
              if plx ≠ holderExtent then err s!"pl-target:{pathStr d.path}:{plx}!={holderExtent}"
          | none => pure ()
          let dot := dotOf d.path
          let nl := (dot.bind (·.rr.nlink)).getD 0
          let md := (d.rr.mode).getD 0
          entry s!"R:D:{pathStr lp}:m{md}:n{nl}"
      | none =>
        let md := p.rr.mode.getD 0
        let nl := p.rr.nlink.getD 0
        if p.rr.mode.isNone then err s!"rr-missing-px:{pathStr p.path}"
        match p.rr.symlink with
        | some t =>
          if md / 4096 ≠ 10 then err s!"symlink-mode:{pathStr p.path}:{md}"
          entry s!"R:L:{pathStr lp}:{hex t}:m{md}:n{nl}"
        | none =>
          if p.isDir then
            if md / 4096 ≠ 4 then err s!"dir-mode:{pathStr p.path}:{md}"
            -- the "." record must agree with the parent's record about mode and link count
            if let some dt := dotOf p.path then
              if dt.rr.mode ≠ p.rr.mode then err s!"dot-mode-differs:{pathStr p.path}"
              if dt.rr.nlink ≠ p.rr.nlink then err s!"dot-nlink-differs:{pathStr p.path}:{dt.rr.nlink.getD 0}!={nl}"
            entry s!"R:D:{pathStr lp}:m{md}:n{nl}"
          else
            let h := if p.len > 0 ∧ i.inRange (p.extent * 2048) p.len then fnv1a i.d (p.extent * 2048) p.len else 14695981039346656037
            entry s!"R:F:{pathStr lp}:{p.len}:{h.toNat}:{p.extent}:m{md}:n{nl}"

/-! ### El Torito -/

def readElTorito (i : Img) (brSector : Nat) : RM Unit := do
  let p := brSector * 2048
  let sysid := i.slice (p + 7) 23
  if sysid ≠ "EL TORITO SPECIFICATION".toUTF8.toList then return
  if brSector ≠ 17 then err s!"eltorito-boot-record-not-at-17:{brSector}"
  if (i.slice (p + 30) 41).any (· ≠ 0) then err "eltorito-boot-record-padding"
  let cat := i.le32 (p + 71)
  alloc "bootcat" cat 1
  info s!"bootcat={cat}"
  let c := cat * 2048
  if !(i.inRange c 2048) then
    err "bootcat-outside-image"
    return
  -- validation entry
  if i.b c ≠ 1 then err "validation-header-id"
  if i.b (c + 30) ≠ 0x55 ∨ i.b (c + 31) ≠ 0xAA then err "validation-key-bytes"
  let mut sum := 0
  for k in [0 : 16] do
    sum := sum + i.le16 (c + 2 * k)
  if sum % 65536 ≠ 0 then err s!"validation-checksum:{sum % 65536}"
  let plat := i.b (c + 1)
  let entryAt (q : Nat) (label : String) (platform : Nat) : RM Unit := do
    let boot := i.b q
    if boot ≠ 0x88 ∧ boot ≠ 0 then err s!"boot-indicator:{label}"
    let media := i.b (q + 1)
    let rba := i.le32 (q + 8)
    let cnt := i.le16 (q + 6)
    -- fingerprint of the first 2048 bytes at the load address and the boot-info-table fields if present
    let base := rba * 2048
    if !(i.inRange base 64) then err s!"load-rba-outside-image:{label}:{rba}"
    let bitPvd := i.le32 (base + 8); let bitFile := i.le32 (base + 12); let bitLen := i.le32 (base + 16)
    let bitSum := i.le32 (base + 20)
    entry s!"B:{label}:plat{platform}:boot{boot}:media{media}:seg{i.le16 (q + 2)}:sys{i.b (q + 4)}:cnt{cnt}:rba{rba}:bit{bitPvd},{bitFile},{bitLen},{bitSum}"
  entryAt (c + 32) "initial" plat
  -- sections
  let mut q := c + 64
  let mut sec := 0
  let mut fuel := 62
  let mut last := false
  while fuel > 0 ∧ q + 32 ≤ c + 2048 ∧ (i.b q = 0x90 ∨ i.b q = 0x91) do
    fuel := fuel - 1
    if last then err "section-after-final-header"
    let hdr := i.b q
    if hdr = 0x91 then last := true
    let n := i.le16 (q + 2)
    let pl := i.b (q + 1)
    q := q + 32
    for _ in [0 : n] do
      if q + 32 > c + 2048 then err "section-entries-overrun-catalog"
      else
        entryAt q s!"section{sec}" pl
        sec := sec + 1
      q := q + 32
  if sec > 0 ∧ !last then err "last-section-header-not-0x91"
  if sec > 31 then err s!"too-many-sections:{sec}"
  -- the remainder of the catalog must be zero
  if q ≤ c + 2048 ∧ (i.slice q (c + 2048 - q)).any (· ≠ 0) then err "catalog-trailing-garbage"

/-! ### top level (ISO9660 + Joliet + Rock Ridge + El Torito) -/

def readIso (i : Img) : RM Unit := do
  if i.size < 17 * 2048 then
    err "image-too-short"
    return
  alloc "system-area" 0 16
  let mut sec := 16
  let mut vds : Array VD := #[]
  let mut terminated := false
  let mut fuel := 64
  while fuel > 0 ∧ !terminated ∧ (sec + 1) * 2048 ≤ i.size do
    fuel := fuel - 1
    if i.slice (sec * 2048 + 1) 5 ≠ [67, 68, 48, 48, 49] then    -- "CD001"
      err s!"vd-without-cd001:{sec}"
      break
    let vd ← readVD i sec
    alloc s!"vd{sec}:type{vd.kind}" sec 1
    vds := vds.push vd
    if vd.kind = 255 then terminated := true
    sec := sec + 1
  if !terminated then err "vd-set-not-terminated"
  let pvds := vds.filter (·.kind = 1)
  if pvds.isEmpty then
    err "no-primary-volume-descriptor"
    return
  if vds[0]!.kind ≠ 1 then err "first-descriptor-not-primary"
  let pvd := pvds[0]!
  info s!"space={pvd.spaceSize}"
  info s!"ptsize={pvd.ptSize}"
  info s!"npvd={pvds.size}"
  info s!"imgsectors={i.sectors}"
  if pvd.blockSize ≠ 2048 then err s!"block-size:{pvd.blockSize}"
  -- duplicate PVDs must be identical
  for v in pvds do
    if i.slice (v.sector * 2048) 2048 ≠ i.slice (pvd.sector * 2048) 2048 then err s!"duplicate-pvd-differs:{v.sector}"
  -- every descriptor that carries sizes must agree on the volume size
  for v in vds do
    if (v.kind = 1 ∨ v.kind = 2) ∧ v.spaceSize ≠ pvd.spaceSize then
      err s!"space-size-differs:vd{v.sector}:{v.spaceSize}!={pvd.spaceSize}"
  -- XA?
  let xa := i.slice (pvd.sector * 2048 + 1024) 8 = "CD-XA001".toUTF8.toList
  info s!"xa={if xa then 1 else 0}"
  -- primary tree
  let w ← walk i .iso pvd.rootExtent pvd.rootLen xa
  checkPathTables i "iso" pvd.ptSize pvd.lLoc pvd.mLoc w
  emitPhys i "I" w.phys id
  emitRR i w.phys
  info s!"rr={if w.phys.any (fun p => p.rr.present) then 1 else 0}"
  -- ER must be announced in the root's "." when RR is used
  if (w.phys.any fun p => p.rr.present) then
    match w.phys.find? fun p => p.path = [[0]] with
    | some d => if !d.rr.er then err "rr-without-er-in-root"
    | none => pure ()
  -- supplementary descriptors
  for v in vds do
    if v.kind = 2 then
      if v.isJoliet then
        let wj ← walk i .joliet v.rootExtent v.rootLen false
        checkPathTables i "joliet" v.ptSize v.lLoc v.mLoc wj
        emitPhys i "J" wj.phys utf16beToUtf8
        info s!"joliet=1"
        for p in wj.phys do
          if p.path.getLast!.length % 2 = 1 ∧ p.path.getLast! ≠ [0] ∧ p.path.getLast! ≠ [1] then
            err s!"joliet-odd-identifier-length:{pathStr p.path}"
          if p.path.getLast!.length > 128 then err s!"joliet-identifier-too-long:{pathStr p.path}"
      else
        -- ISO9660:1999 enhanced descriptor: shares the primary tree and path tables
        if v.version ≠ 2 then err s!"enhanced-vd-version:{v.version}"
        if v.rootExtent ≠ pvd.rootExtent ∨ v.rootLen ≠ pvd.rootLen then err "enhanced-vd-root-differs"
        if v.ptSize ≠ pvd.ptSize ∨ v.lLoc ≠ pvd.lLoc ∨ v.mLoc ≠ pvd.mLoc then err "enhanced-vd-path-table-differs"
        info s!"enhanced=1"
    if v.kind = 0 then readElTorito i v.sector

end Pycdlib.Reader
