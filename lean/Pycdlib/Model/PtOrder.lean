/-
Model/PtOrder — the order of the path table and its parent directory numbers.
Anchor: pycdlib.py `_write_directory_records` (a deque of directories, starting with the root; every directory is written
when it is taken from the deque and its sub-directories are appended in recorded order) together with
`_reassign_vd_dirrecord_extents` (`ptr_index`: the children of the k-th directory taken get parent number k).
`children d` = the sub-directories of `d` in recorded order, an arbitrary function.  Mathlib-free.
-/
namespace Pycdlib.PtOrder

/-- emit (directory, parent directory number); `n` is the number the directory at the head of the queue gets -/
def bfs (children : Nat → List Nat) : Nat → List (Nat × Nat) → Nat → List (Nat × Nat)
  | 0, _, _ => []
  | _ + 1, [], _ => []
  | f + 1, (d, p) :: q, n => (d, p) :: bfs children f (q ++ (children d).map (·, n)) (n + 1)

/-- the path table of a hierarchy: the root is its own parent (number 1) -/
def table (children : Nat → List Nat) (fuel root : Nat) : List (Nat × Nat) := bfs children fuel [(root, 1)] 1

end Pycdlib.PtOrder
