/-
Model/PtBytes — the bytes of one path table (ECMA-119 6.9, 9.4).
Writer: pycdlib.py `_write_directory_records` appends `ptr.record_little_endian()` / `record_big_endian()` of every
directory, in the order of its breadth-first walk, at `path_table_location_* * 2048 + offset`.  Reader: records are read
one after the other until `path_tbl_size` bytes are used (`_parse_path_table` does the same).  Mathlib-free.
-/
import Pycdlib.Model.Codec
namespace Pycdlib.PtBytes
open Pycdlib

def render (be : Bool) : List PTRF → Bytes
  | [] => []
  | r :: rs => encPTR be r ++ render be rs

/-- read records until the bytes are used up; `none` when a record is cut short or malformed -/
def parse (be : Bool) : Nat → Bytes → Option (List PTRF)
  | _, [] => some []
  | 0, _ :: _ => none
  | fuel + 1, ld :: rest =>
    let l := 8 + ld.toNat + ld.toNat % 2
    if (ld :: rest).length < l then none else
    match decPTR be ((ld :: rest).take l) with
    | none => none
    | some r => (parse be fuel ((ld :: rest).drop l)).map (r :: ·)

end Pycdlib.PtBytes
