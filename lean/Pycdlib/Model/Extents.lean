/-
Model/Extents — the records of a file that needs several extents, as a directory keeps them.
Anchor: dr.py `DirectoryRecord._add_child` (the `bisect_left` + duplicate branch): a record whose identifier is already
present continues that file — it is attached to the LAST record of the file (following `data_continuation`), that
record gets the multi-extent flag, and the new record is inserted right after it.  `_add_fp` (pycdlib.py) adds the
extents of a file one after the other (0xfffff800 bytes each, the rest in the last one); parsing a directory adds its
records in on-disc order through the same method.
Mathlib-free.
-/
namespace Pycdlib.Extents

structure Rec where
  ident : Nat          -- the identifier, as its rank in the directory's sort order
  tag : Nat            -- which extent of the file this is (only to tell records apart)
  multi : Bool         -- FILE_FLAG_MULTI_EXTENT
  cont : Bool          -- data_continuation is set
deriving Repr, DecidableEq

/-- `bisect.bisect_left(children, child)`: the children are sorted by identifier -/
def bisectLeft (l : List Rec) (i : Nat) : Nat := (l.takeWhile (·.ident < i)).length

/-- from `idx`, follow the continuation links to the last record of the file -/
def lastOfFile : List Rec → Nat → Nat → Nat
  | _, idx, 0 => idx
  | l, idx, fuel + 1 =>
    match l[idx]? with
    | some r => if r.cont ∧ idx + 1 < l.length then lastOfFile l (idx + 1) fuel else idx
    | none => idx

def setAt (l : List Rec) (idx : Nat) (f : Rec → Rec) : List Rec :=
  l.take idx ++ (match l[idx]? with | some r => [f r] | none => []) ++ l.drop (idx + 1)

def insertAt (l : List Rec) (idx : Nat) (r : Rec) : List Rec := l.take idx ++ [r] ++ l.drop idx

/-- `_add_child(child, allow_duplicate=True)` on the sorted children -/
def addChild (l : List Rec) (r : Rec) : List Rec :=
  let idx := bisectLeft l r.ident
  match l[idx]? with
  | some x =>
    if x.ident = r.ident then
      let last := lastOfFile l idx l.length
      insertAt (setAt l last fun y => { y with multi := true, cont := true }) (last + 1) r
    else insertAt l idx r
  | none => insertAt l idx r

/-- the extents of one file, added in order -/
def addFile (l : List Rec) (ident : Nat) (n : Nat) : List Rec :=
  (List.range n).foldl (fun acc k => addChild acc { ident := ident, tag := k, multi := false, cont := false }) l

/-- what the directory must hold for a file of `n` extents: the records in order, all but the last flagged -/
def fileRun (ident : Nat) (n : Nat) : List Rec :=
  (List.range n).map fun k => { ident := ident, tag := k, multi := decide (k + 1 < n), cont := decide (k + 1 < n) }

end Pycdlib.Extents
