/-
Model/Boot — El Torito boot catalog (El Torito 1.0 section 2) as pycdlib builds it.
Anchors: eltorito.py `EltoritoValidationEntry.new/_record/_checksum` (:132-:260, FMT '<BBH24sHBB'),
`EltoritoEntry.new/record` (:340-:470, FMT '<BBHBBHLB19s'), `EltoritoSectionHeader` (:485, FMT '<BBH28s'),
`EltoritoBootCatalog.new/add_section/record` (:708-:812), `EltoritoBootInfoTable.record` (:100);
pycdlib.py `add_eltorito` (:5110, sector count computation) and `_calculate_eltorito_boot_info_table_csum` (:1842).
Mathlib-free.
-/
import Pycdlib.Model.Checksum
namespace Pycdlib.Boot

structure Entry where
  bootable : Bool
  media : Nat          -- 0 noemul, 1/2/3 floppy 1.2/1.44/2.88, 4 hd emulation
  loadSeg : Nat
  sysType : Nat
  count : Nat          -- sector count as recorded
  rba : Nat
deriving Repr, DecidableEq

/-- `EltoritoEntry.new`: media code and the sector count that ends up in the entry; `none` = refused -/
def mediaAndCount (media : String) (sectorCount : Nat) : Option (Nat × Nat) :=
  if media = "noemul" then some (0, sectorCount)
  else if media = "floppy" then
    if sectorCount = 2400 then some (1, 1) else if sectorCount = 2880 then some (2, 1)
    else if sectorCount = 5760 then some (3, 1) else none
  else if media = "hdemul" then some (4, 1)
  else none

/-- `add_eltorito`: sectors of 512 bytes needed for a boot file of `len` bytes, when no load size is given -/
def defaultSectorCount (len : Nat) : Nat := (len + 2047) / 2048 * 2048 / 512

def le16n (n : Nat) : List Nat := [n % 256, n / 256 % 256]
def le32n (n : Nat) : List Nat := [n % 256, n / 256 % 256, n / 65536 % 256, n / 16777216 % 256]

/-- 32 bytes of an initial/section entry -/
def entryBytes (e : Entry) : List Nat :=
  [if e.bootable then 0x88 else 0, e.media] ++ le16n e.loadSeg ++ [e.sysType, 0] ++ le16n e.count ++ le32n e.rba ++
  List.replicate 20 0

/-- the validation entry with its checksum field zero -/
def validationZero (platform : Nat) : List Nat :=
  [1, platform, 0, 0] ++ List.replicate 24 0 ++ [0, 0, 0x55, 0xAA]

/-- the validation entry as recorded -/
def validationBytes (platform : Nat) : List Nat :=
  let c := elToritoChecksum (validationZero platform)
  [1, platform, 0, 0] ++ List.replicate 24 0 ++ le16n c ++ [0x55, 0xAA]

/-- section header: 0x91 for the last one, 0x90 otherwise; one entry per section -/
def headerBytes (last : Bool) (platform : Nat) : List Nat :=
  [if last then 0x91 else 0x90, platform] ++ le16n 1 ++ List.replicate 28 0

/-- sections as (platform, entry) in the order they were added -/
def sectionsBytes : List (Nat × Entry) → List Nat
  | [] => []
  | [(p, e)] => headerBytes true p ++ entryBytes e
  | (p, e) :: rest => headerBytes false p ++ entryBytes e ++ sectionsBytes rest

/-- `EltoritoBootCatalog.record()` -/
def catalogBytes (platform : Nat) (initial : Entry) (sections : List (Nat × Entry)) : List Nat :=
  validationBytes platform ++ entryBytes initial ++ sectionsBytes sections

/-- the 56 bytes patched into the boot file at offset 8 (`EltoritoBootInfoTable.record`) -/
def bootInfoTable (pvdSector fileSector origLen : Nat) (file : List Nat) : List Nat :=
  le32n pvdSector ++ le32n fileSector ++ le32n origLen ++ le32n (bootInfoChecksum file) ++ List.replicate 40 0

end Pycdlib.Boot
