/-
Model/UdfNames — how a UDF File Identifier holds a name, and how a name is looked up.
Anchors: udf.py `UDFFileIdentifierDescriptor.new` (latin-1 when every character fits, else UTF-16BE; the encoding is kept
in `.encoding` and recorded as the OSTA compression id 8 / 16), `UDFFileEntry.find_file_ident_desc_by_name` and
`remove_file_ident_desc_by_name` (an identifier is compared with the name in the identifier's own encoding).
Code units instead of bytes: a latin-1 identifier is its list of code points (< 256), a UTF-16 identifier its list of
16-bit units.  Mathlib-free.
-/
import Pycdlib.Model.Unicode
namespace Pycdlib.UdfNames

inductive Enc where
  | latin1
  | utf16
deriving Repr, DecidableEq

structure Ident where
  enc : Enc
  units : List Nat
deriving Repr, DecidableEq

def units16Of (c : Nat) : List Nat :=
  if c < 0x10000 then [c] else [0xD800 + (c - 0x10000) / 1024, 0xDC00 + (c - 0x10000) % 1024]

def units16 (name : List Nat) : List Nat := name.flatMap units16Of

def isLatin1 (name : List Nat) : Bool := name.all (· < 256)

/-- `UDFFileIdentifierDescriptor.new` -/
def identOf (name : List Nat) : Ident :=
  if isLatin1 name then ⟨.latin1, name⟩ else ⟨.utf16, units16 name⟩

/-- `find_file_ident_desc_by_name`: does this identifier carry the name that is looked up? -/
def matches_ (i : Ident) (query : List Nat) : Bool :=
  match i.enc with
  | .latin1 => isLatin1 query && i.units == query
  | .utf16 => i.units == units16 query

end Pycdlib.UdfNames
