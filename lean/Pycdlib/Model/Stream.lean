/-
Model/Stream — `PyCdlibIO` over a shared backing file object.
Anchors: pycdlib/pycdlibio.py `PyCdlibIO.__enter__/read/readall/readinto/seek/tell/close` (:33-250),
pycdlib/inode.py `InodeOpenData.__enter__` (:180).
The backing file is `img : Bytes` plus ONE shared position `pos` (all streams opened on the original image
share the PyCdlib object's file object); `clobber p` stands for any other use of that file object
(another stream, an extraction, a listing) that leaves the position at `p`.
A Python exception is the output `refused`; a refused call leaves the world unchanged.
Mathlib-free.
-/
import Pycdlib.Model.Bytes
namespace Pycdlib

structure StreamSt where
  start : Nat      -- `_startpos`: absolute offset of the file's first byte in the backing file
  len : Nat        -- `_length`
  off : Nat        -- `_offset`
  isOpen : Bool
deriving Repr, DecidableEq

structure World where
  img : Bytes
  pos : Nat
  streams : List StreamSt
deriving Repr

inductive StreamCall where
  | read (n : Option Nat)          -- `read(size)`; `none` = None / negative
  | readall
  | readinto (k : Nat)             -- buffer of `k` bytes
  | seek (off : Int) (whence : Nat)
  | tell
  | close
deriving Repr

inductive SOp where
  | call (id : Nat) (c : StreamCall)
  | clobber (p : Nat)
deriving Repr

inductive SOut where
  | bytes (b : Bytes)
  | num (n : Nat)
  | refused
  | unit
deriving Repr, DecidableEq

/-- `fp.seek(p); fp.read(n)` on the backing file -/
def fpRead (img : Bytes) (p n : Nat) : Bytes := (img.drop p).take n

/-- where `seek(off, whence)` lands, `none` when the call is refused -/
def seekTarget (cur len : Nat) (off : Int) (whence : Nat) : Option Nat :=
  if whence = 0 then (if off < 0 then none else some off.toNat)
  else if whence = 1 then (if (cur : Int) + off < 0 then none else some ((cur : Int) + off).toNat)
  else if whence = 2 then (if (len : Int) + off < 0 then none else some ((len : Int) + off).toNat)
  else none

/-- one call on one stream: new stream state, new shared position, output.
Follows the statement order of pycdlibio.py; every read first re-seeks the shared file object to the
stream's own position. -/
def streamCall (img : Bytes) (pos : Nat) (s : StreamSt) (c : StreamCall) : StreamSt × Nat × SOut :=
  match c with
  | .close => ({ s with isOpen := false }, pos, .unit)
  | .tell => if s.isOpen then (s, pos, .num s.off) else (s, pos, .refused)
  | .read n =>
    if !s.isOpen then (s, pos, .refused)
    else if s.off ≥ s.len then (s, pos, .bytes [])
    else
      let readsize := match n with
        | none => s.len - s.off
        | some k => min (s.len - s.off) k
      ({ s with off := s.off + readsize }, s.start + s.off + readsize, .bytes (fpRead img (s.start + s.off) readsize))
  | .readall =>
    if !s.isOpen then (s, pos, .refused)
    else if s.len - s.off > 0 then
      let readsize := s.len - s.off
      ({ s with off := s.off + readsize }, s.start + s.off + readsize, .bytes (fpRead img (s.start + s.off) readsize))
    else (s, pos, .bytes [])
  | .readinto k =>
    if !s.isOpen then (s, pos, .refused)
    else if s.len - s.off > 0 then
      let readsize := min (s.len - s.off) k
      ({ s with off := s.off + readsize }, s.start + s.off + readsize, .bytes (fpRead img (s.start + s.off) readsize))
    else (s, pos, .bytes [])
  | .seek off whence =>
    if !s.isOpen then (s, pos, .refused)
    else match seekTarget s.off s.len off whence with
      | none => (s, pos, .refused)
      | some t =>
        -- the shared file object is moved only when the target lies inside the file
        ({ s with off := t }, if t < s.len then s.start + t else pos, .num t)

def stepW (w : World) (op : SOp) : World × SOut :=
  match op with
  | .clobber p => ({ w with pos := p }, .unit)
  | .call id c =>
    match w.streams[id]? with
    | none => (w, .refused)
    | some s =>
      let r := streamCall w.img w.pos s c
      ({ w with pos := r.2.1, streams := w.streams.set id r.1 }, r.2.2)

def runW (w : World) : List SOp → List SOut
  | [] => []
  | op :: ops => (stepW w op).2 :: runW (stepW w op).1 ops

/-! ### Specification: independent in-memory binary streams (`io.BytesIO` of the file's content) -/

structure SpecSt where
  content : Bytes
  pos : Nat
  isOpen : Bool
deriving Repr, DecidableEq

def specCall (s : SpecSt) (c : StreamCall) : SpecSt × SOut :=
  match c with
  | .close => ({ s with isOpen := false }, .unit)
  | .tell => if s.isOpen then (s, .num s.pos) else (s, .refused)
  | .read n =>
    if !s.isOpen then (s, .refused)
    else
      let data := match n with
        | none => s.content.drop s.pos
        | some k => (s.content.drop s.pos).take k
      ({ s with pos := s.pos + data.length }, .bytes data)
  | .readall =>
    if !s.isOpen then (s, .refused)
    else ({ s with pos := s.pos + (s.content.drop s.pos).length }, .bytes (s.content.drop s.pos))
  | .readinto k =>
    if !s.isOpen then (s, .refused)
    else ({ s with pos := s.pos + ((s.content.drop s.pos).take k).length }, .bytes ((s.content.drop s.pos).take k))
  | .seek off whence =>
    if !s.isOpen then (s, .refused)
    else match seekTarget s.pos s.content.length off whence with
      | none => (s, .refused)
      | some t => ({ s with pos := t }, .num t)

def stepSpec (ss : List SpecSt) (op : SOp) : List SpecSt × SOut :=
  match op with
  | .clobber _ => (ss, .unit)
  | .call id c =>
    match ss[id]? with
    | none => (ss, .refused)
    | some s => let r := specCall s c; (ss.set id r.1, r.2)

def runSpec (ss : List SpecSt) : List SOp → List SOut
  | [] => []
  | op :: ops => (stepSpec ss op).2 :: runSpec (stepSpec ss op).1 ops

/-- abstraction: each stream sees exactly its own file's bytes -/
def absStream (img : Bytes) (s : StreamSt) : SpecSt :=
  { content := (img.drop s.start).take s.len, pos := s.off, isOpen := s.isOpen }

def absW (w : World) : List SpecSt := w.streams.map (absStream w.img)

/-- well-formed world: every file lies inside the backing file -/
def WFWorld (w : World) : Prop := ∀ s ∈ w.streams, s.start + s.len ≤ w.img.length

/-- `utils.copy_data_yield(data_length, blocksize, infp, outfp)`: the bytes written to `outfp`.
`src` is what `infp` delivers from its current position; a short read ends the loop (utils.py:116-118). -/
def copyData (fuel left bs : Nat) (src : Bytes) : Bytes :=
  match fuel with
  | 0 => []
  | fuel + 1 =>
    if left = 0 then []
    else
      let readsize := min bs left
      let data := src.take readsize
      let adv := if data.length ≠ readsize then left else data.length
      data ++ copyData fuel (left - adv) bs (src.drop readsize)

/-! protocol helpers (test infrastructure) -/

def SOut.show : SOut → String
  | .bytes b => "b:" ++ hexs b
  | .num n => "n:" ++ toString n
  | .refused => "refused"
  | .unit => "unit"

def parseSOp (tok : String) : Option SOp :=
  match tok.splitOn ":" with
  | ["r", id, "N"] => do pure (.call (← id.toNat?) (.read none))
  | ["r", id, n] => do pure (.call (← id.toNat?) (.read (some (← n.toNat?))))
  | ["a", id] => do pure (.call (← id.toNat?) .readall)
  | ["i", id, k] => do pure (.call (← id.toNat?) (.readinto (← k.toNat?)))
  | ["s", id, off, wh] => do pure (.call (← id.toNat?) (.seek (← off.toInt?) (← wh.toNat?)))
  | ["t", id] => do pure (.call (← id.toNat?) .tell)
  | ["c", id] => do pure (.call (← id.toNat?) .close)
  | ["x", p] => do pure (.clobber (← p.toNat?))
  | _ => none

def parseStreams (tok : String) : Option (List StreamSt) :=
  (tok.splitOn ",").mapM fun item =>
    match item.splitOn ":" with
    | [a, b] => do pure { start := ← a.toNat?, len := ← b.toNat?, off := 0, isOpen := true }
    | _ => none

end Pycdlib
