/-
Model/Hybrid — isohybrid arithmetic.
Anchors: isohybrid.py `IsoHybrid._calc_cc` (:837), `IsoHybrid.new` CHS start fields (:806-:811),
`IsoHybrid.record` partition entry (:865-:874), `update_rba` (:914), `update_efi` / `update_mac` (:929-:985).
Mathlib-free.
-/
namespace Pycdlib.Hybrid

/-- room the backup GPT needs behind the image: 32 sectors of partition entries and one header sector -/
def gptBackup : Nat := 33 * 512

/-- `_calc_cc(iso_size)`: (cylinder count capped at 1024, padding to a whole cylinder; with EFI the padding is
extended by whole cylinders until the backup GPT fits into it) -/
def calcCc (isoSize heads sectors : Nat) (efi : Bool) : Nat × Nat :=
  let cylsize := heads * sectors * 512
  let frac := isoSize % cylsize
  let padding := if frac > 0 then cylsize - frac else 0
  let padding := if efi && padding < gptBackup then padding + (gptBackup - padding + cylsize - 1) / cylsize * cylsize else padding
  (min ((isoSize + padding) / cylsize) 1024, padding)

/-- start CHS of the partition (`new`): (head, sector byte, cylinder byte) -/
def startChs (offset heads sectors : Nat) : Nat × Nat × Nat :=
  let bhead := offset / sectors % heads
  let bsect := offset % sectors + 1
  let bcyl := offset / (heads * sectors)
  (bhead, bsect + (bcyl % 1024 / 256 * 64), bcyl % 256)

/-- end CHS and size of the active partition entry (`record`) -/
def endFields (cc heads sectors offset : Nat) : Nat × Nat × Nat × Nat :=
  (heads - 1, sectors + ((cc - 1) % 1024 / 256 * 64), (cc - 1) % 256, cc * heads * sectors - offset)

/-- `update_rba`: the MBR holds the boot file address in 512-byte units -/
def mbrRba (extent : Nat) : Nat := extent * 4

/-- GPT / MBR partition of an El Torito image at `extent` with `count` 512-byte sectors: (first, last) LBA -/
def partLbas (extent count : Nat) : Nat × Nat := (extent * 4, extent * 4 + count - 1)

/-- the numbers `update_efi` puts into the two GPT headers and the first two partition entries -/
structure GptGeo where
  primaryLba : Nat          -- where the primary header says it is
  backupLba : Nat           -- where both say the backup header is
  firstUsable : Nat
  lastUsable : Nat
  primaryEntries : Nat      -- LBA of the primary partition array
  backupEntries : Nat       -- LBA of the backup partition array
  isoFirst : Nat            -- partition 1: the whole ISO
  isoLast : Nat
  efiFirst : Nat            -- partition 2: the EFI boot image
  efiLast : Nat
deriving Repr, DecidableEq

/-- `update_efi(current_extent, sector_count, iso_size)` with `GPT.new(mac)` / `GPTHeader.new(mac)`:
`GPT_SIZE = 128 / 4 + 2 = 34`, the Mac variant keeps a hole of `APM_PARTS * 4 + 2 = 14` sectors for the Apple partition
map in front of the partition array -/
def gptGeo (isoSize heads sectors extent count : Nat) (mac : Bool) : GptGeo :=
  let pad := (calcCc isoSize heads sectors true).2
  let total := isoSize + pad
  let backup := (total - 512) / 512
  let hole := if mac then 14 else 0
  { primaryLba := 1, backupLba := backup, firstUsable := 34 + hole, lastUsable := total / 512 - 34,
    primaryEntries := 2 + hole, backupEntries := backup - 32,
    isoFirst := 0, isoLast := isoSize / 512 - 1, efiFirst := extent * 4, efiLast := extent * 4 + count - 1 }
