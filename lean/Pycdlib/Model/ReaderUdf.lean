/-
Model/ReaderUdf — an independent ECMA-167 / UDF 2.60 reader.
Starts ONLY from the volume recognition sequence and the anchor volume descriptor pointers (sector 256
and the last sector), follows main/reserve volume descriptor sequences → logical volume → file set →
root ICB → file identifier descriptors, validating every descriptor tag (identifier, checksum, CRC,
location) on the way.  Field offsets are those of ECMA-167 3/10, 4/14 and UDF 2.60 section 2.
Mathlib-free.
-/
import Pycdlib.Model.Reader
namespace Pycdlib.Reader

/-- CRC-16/CCITT (poly 0x1021, init 0), bit by bit — ECMA-167 3/7.2.6 / UDF 6.5 -/
def crcStep (crc : Nat) (byte : Nat) : Nat := Id.run do
  let mut c := (crc ^^^ (byte * 256)) % 65536
  for _ in [0 : 8] do
    c := if c / 32768 % 2 = 1 then ((c * 2) ^^^ 0x1021) % 65536 else (c * 2) % 65536
  return c

def crcCcitt (i : Img) (p n : Nat) : Nat := Id.run do
  let mut c := 0
  for k in [p : p + n] do
    c := crcStep c (i.b k)
  return c

/-- validate a descriptor tag at byte offset `p`; `loc` is the value the location field must hold -/
def checkTag (i : Img) (p : Nat) (ident : Nat) (loc : Nat) (what : String) : RM Bool := do
  let id := i.le16 p
  if id ≠ ident then
    err s!"udf-tag-ident:{what}:{id}!={ident}"
    return false
  let mut sum := 0
  for k in [0 : 16] do
    if k ≠ 4 then sum := sum + i.b (p + k)
  if sum % 256 ≠ i.b (p + 4) then err s!"udf-tag-checksum:{what}"
  let crcLen := i.le16 (p + 10)
  if !(i.inRange (p + 16) crcLen) then err s!"udf-tag-crclen-outside-image:{what}"
  else if crcCcitt i (p + 16) crcLen ≠ i.le16 (p + 8) then err s!"udf-tag-crc:{what}"
  if i.le32 (p + 12) ≠ loc then err s!"udf-tag-location:{what}:{i.le32 (p + 12)}!={loc}"
  if i.le16 (p + 2) ≠ 2 ∧ i.le16 (p + 2) ≠ 3 then err s!"udf-tag-version:{what}"
  return true

/-- OSTA compressed unicode → UTF-8 -/
def ostaName (l : List UInt8) (what : String) : RM (List UInt8) := do
  match l with
  | [] => pure []
  | 8 :: rest => pure (latin1ToUtf8 rest)
  | 16 :: rest =>
    if rest.length % 2 = 1 then err s!"udf-name-odd-length:{what}"
    pure (utf16beToUtf8 rest)
  | c :: _ => do err s!"udf-name-compression-id:{what}:{c.toNat}"; pure []

structure UdfCtx where
  partStart : Nat
  partLen : Nat

structure FE where
  fileType : Nat
  infoLen : Nat
  blocks : Nat
  linkCount : Nat
  ads : Array (Nat × Nat)      -- (length, lbn)
  embedded : Option (Nat × Nat) -- (abs byte offset, len) when data is embedded in the descriptor
  uniqueId : Nat
deriving Inhabited

def readFE (i : Img) (c : UdfCtx) (lbn : Nat) (what : String) : RM (Option FE) := do
  let sec := c.partStart + lbn
  let p := sec * 2048
  if lbn ≥ c.partLen then err s!"udf-icb-outside-partition:{what}:{lbn}"
  if !(i.inRange p 2048) then
    err s!"udf-icb-outside-image:{what}"
    return none
  let ok ← checkTag i p 261 lbn s!"fe:{what}"
  if !ok then return none
  alloc s!"udf:fe:{what}" sec 1
  let ft := i.b (p + 27)
  let adType := i.le16 (p + 34) % 8
  let infoLen := i.le64 (p + 56)
  let lea := i.le32 (p + 168)
  let lad := i.le32 (p + 172)
  if 176 + lea + lad > 2048 then err s!"udf-fe-overflows-block:{what}"
  if i.le16 (p + 10) ≠ 160 + lea + lad then err s!"udf-fe-crclen:{what}:{i.le16 (p + 10)}!={160 + lea + lad}"
  let mut ads : Array (Nat × Nat) := #[]
  let mut emb : Option (Nat × Nat) := none
  if adType = 0 then
    if lad % 8 ≠ 0 then err s!"udf-fe-lad-not-multiple-of-8:{what}"
    for k in [0 : lad / 8] do
      let q := p + 176 + lea + 8 * k
      let ln := i.le32 q % 1073741824
      if i.le32 q / 1073741824 ≠ 0 then err s!"udf-ad-extent-type:{what}"
      ads := ads.push (ln, i.le32 (q + 4))
  else if adType = 1 then
    if lad % 16 ≠ 0 then err s!"udf-fe-lad-not-multiple-of-16:{what}"
    for k in [0 : lad / 16] do
      let q := p + 176 + lea + 16 * k
      ads := ads.push (i.le32 q % 1073741824, i.le32 (q + 4))
  else if adType = 3 then
    emb := some (p + 176 + lea, lad)
    if lad ≠ infoLen then err s!"udf-embedded-length:{what}"
  else err s!"udf-ad-type:{what}:{adType}"
  -- lengths must cover exactly what they describe
  if emb.isNone then
    let total := ads.foldl (fun a (l, _) => a + l) 0
    if total ≠ infoLen then err s!"udf-info-length:{what}:{infoLen}!={total}"
    let blocks := ads.foldl (fun a (l, _) => a + (l + 2047) / 2048) 0
    if blocks ≠ i.le64 (p + 64) then err s!"udf-logical-blocks-recorded:{what}:{i.le64 (p + 64)}!={blocks}"
    -- every extent but the last must be a whole number of blocks
    for k in [0 : ads.size] do
      let (l, b) := ads[k]!
      if k + 1 < ads.size ∧ l % 2048 ≠ 0 then err s!"udf-ad-partial-block-not-last:{what}"
      if l > 0 ∧ b + (l + 2047) / 2048 > c.partLen then err s!"udf-ad-outside-partition:{what}"
  return some { fileType := ft, infoLen := infoLen, blocks := i.le64 (p + 64), linkCount := i.le16 (p + 48),
                ads := ads, embedded := emb, uniqueId := i.le64 (p + 160) }

/-- the bytes an FE describes, as (absolute offset, length) pieces -/
def fePieces (c : UdfCtx) (fe : FE) : List (Nat × Nat) :=
  match fe.embedded with
  | some (o, l) => [(o, l)]
  | none => fe.ads.toList.map fun (l, b) => ((c.partStart + b) * 2048, l)

def fnvPieces (i : Img) (ps : List (Nat × Nat)) : UInt64 := Id.run do
  let mut h : UInt64 := 14695981039346656037
  for (o, l) in ps do
    for k in [o : o + l] do
      h := (h ^^^ (i.b k).toUInt64) * 1099511628211
  return h

def gather (i : Img) (ps : List (Nat × Nat)) : List UInt8 := ps.flatMap fun (o, l) => i.slice o l

/-- UDF symlink path components (ECMA-167 4/14.16) → a POSIX path -/
def udfSymlink (what : String) : List UInt8 → List (List UInt8) → Bool → Nat → RM (List UInt8)
  | [], acc, abs, _ => pure ((if abs then [47] else []) ++ (List.intercalate [47] acc))
  | l, acc, abs, fuel =>
    match fuel with
    | 0 => pure []
    | fuel + 1 => do
      if l.length < 4 then
        err s!"udf-symlink-component-truncated:{what}"
        return []
      let ty := l[0]!.toNat
      let n := l[1]!.toNat
      if l.length < 4 + n then
        err s!"udf-symlink-component-overrun:{what}"
        return []
      let body := (l.drop 4).take n
      let rest := l.drop (4 + n)
      if ty = 1 ∨ ty = 2 then udfSymlink what rest acc true fuel
      else if ty = 3 then udfSymlink what rest (acc ++ [[46, 46]]) abs fuel
      else if ty = 4 then udfSymlink what rest (acc ++ [[46]]) abs fuel
      else if ty = 5 then do
        let nm ← ostaName body what
        udfSymlink what rest (acc ++ [nm]) abs fuel
      else do
        err s!"udf-symlink-component-type:{what}:{ty}"
        pure []

structure UJob where
  lbn : Nat
  path : List (List UInt8)
  parentLbn : Nat
deriving Inhabited

def readUdfTree (i : Img) (c : UdfCtx) (rootLbn : Nat) : RM (Nat × Nat) := do
  let mut queue : Array UJob := #[{ lbn := rootLbn, path := [], parentLbn := rootLbn }]
  let mut qi := 0
  let mut seen : Array Nat := #[rootLbn]
  let mut nfiles := 0
  let mut ndirs := 0
  let mut fuel := i.sectors + 8
  let mut fileFEs : Array Nat := #[]
  while qi < queue.size ∧ fuel > 0 do
    fuel := fuel - 1
    let job := queue[qi]!
    qi := qi + 1
    let what := pathStr job.path
    let some fe ← readFE i c job.lbn what | continue
    if fe.fileType ≠ 4 then
      err s!"udf-directory-file-type:{what}:{fe.fileType}"
      continue
    ndirs := ndirs + 1
    -- directory contents: FIDs packed back to back over the directory's extents
    let pieces := fePieces c fe
    for (o, l) in pieces do
      if fe.embedded.isNone ∧ l > 0 then alloc s!"udf:fid:{what}" (o / 2048) ((l + 2047) / 2048)
    -- the directory data is contiguous in every image this reader has to accept when it has one extent;
    -- with several extents the FIDs are parsed over the concatenation
    let data := gather i pieces
    if data.length ≠ fe.infoLen then err s!"udf-directory-data-length:{what}"
    -- logical block of a byte offset within the directory data
    let lbnOf (off : Nat) : Nat := Id.run do
      let mut rem := off
      for (l, b) in fe.ads do
        if rem < l then return b + rem / 2048
        rem := rem - l
      return 0
    let mut pos := 0
    let mut k := 0
    let mut names : Array (List UInt8) := #[]
    let mut sawParent := false
    let mut ffuel := fe.infoLen / 38 + 2
    while pos < data.length ∧ ffuel > 0 do
      ffuel := ffuel - 1
      let d := data.drop pos
      if d.length < 38 then
        err s!"udf-fid-truncated:{what}@{pos}"
        break
      let lfi := d[19]!.toNat
      let liu := d[36]!.toNat + 256 * d[37]!.toNat
      let flen := (38 + liu + lfi + 3) / 4 * 4
      if d.length < flen then
        err s!"udf-fid-overruns-directory:{what}@{pos}"
        break
      -- tag check on the gathered bytes (a FID may straddle a block boundary)
      let tagId := d[0]!.toNat + 256 * d[1]!.toNat
      if tagId ≠ 257 then
        err s!"udf-fid-tag-ident:{what}@{pos}:{tagId}"
        break
      let mut sum := 0
      for t in [0 : 16] do
        if t ≠ 4 then sum := sum + d[t]!.toNat
      if sum % 256 ≠ d[4]!.toNat then err s!"udf-fid-tag-checksum:{what}@{pos}"
      let crcLen := d[10]!.toNat + 256 * d[11]!.toNat
      if crcLen ≠ flen - 16 then err s!"udf-fid-crclen:{what}@{pos}:{crcLen}!={flen - 16}"
      let crc := ((d.drop 16).take crcLen).foldl (fun a x => crcStep a x.toNat) 0
      if crc ≠ d[8]!.toNat + 256 * d[9]!.toNat then err s!"udf-fid-tag-crc:{what}@{pos}"
      let tagLoc := ofLE ((d.drop 12).take 4)
      if fe.embedded.isNone ∧ tagLoc ≠ lbnOf pos then err s!"udf-fid-tag-location:{what}@{pos}:{tagLoc}!={lbnOf pos}"
      -- padding bytes must be zero
      if ((d.take flen).drop (38 + liu + lfi)).any (· ≠ 0) then err s!"udf-fid-padding-nonzero:{what}@{pos}"
      let chars := d[18]!.toNat
      let icbLbn := ofLE ((d.drop 24).take 4)
      let icbLen := ofLE ((d.drop 20).take 4)
      if icbLen ≠ 2048 then err s!"udf-fid-icb-length:{what}@{pos}:{icbLen}"
      if chars / 8 % 2 = 1 then
        -- parent entry
        if lfi ≠ 0 then err s!"udf-parent-fid-has-name:{what}"
        if k ≠ 0 then err s!"udf-parent-fid-not-first:{what}"
        if icbLbn ≠ job.parentLbn then err s!"udf-parent-fid-target:{what}:{icbLbn}!={job.parentLbn}"
        sawParent := true
      else if chars / 4 % 2 = 1 then
        pure ()       -- deleted entry
      else
        let raw := (d.drop (38 + liu)).take lfi
        let nm ← ostaName raw s!"{what}@{pos}"
        if nm.isEmpty then err s!"udf-empty-name:{what}@{pos}"
        if names.contains nm then err s!"udf-duplicate-name:{what}/{hex nm}"
        names := names.push nm
        let cpath := job.path ++ [nm]
        if chars / 2 % 2 = 1 then
          if seen.contains icbLbn then err s!"udf-dir-cycle-or-shared-icb:{pathStr cpath}"
          else
            seen := seen.push icbLbn
            queue := queue.push { lbn := icbLbn, path := cpath, parentLbn := job.lbn }
          entry s!"U:D:{pathStr cpath}"
        else
          let some cfe ← readFE i c icbLbn (pathStr cpath) | pure ()
          nfiles := nfiles + 1
          fileFEs := fileFEs.push icbLbn
          if cfe.fileType = 12 then
            -- the path components live in their own extent(s) in the file area
            if cfe.embedded.isNone then
              for (l, b) in cfe.ads do
                if l > 0 then alloc s!"file:U{pathStr cpath}#symlink" (c.partStart + b) ((l + 2047) / 2048)
            let tgt ← udfSymlink (pathStr cpath) (gather i (fePieces c cfe)) [] false 300
            entry s!"U:L:{pathStr cpath}:{hex tgt}"
          else if cfe.fileType = 5 then
            let ps := fePieces c cfe
            let first := match cfe.ads[0]? with
              | some (_, b) => c.partStart + b
              | none => 0
            if cfe.infoLen > 0 ∧ cfe.embedded.isNone then
              -- contiguous data: one allocation from the first extent
              let mut expect := first
              for (l, b) in cfe.ads do
                if c.partStart + b ≠ expect then err s!"udf-file-extents-not-contiguous:{pathStr cpath}"
                expect := expect + (l + 2047) / 2048
              alloc s!"file:U{pathStr cpath}" first ((cfe.infoLen + 2047) / 2048)
            entry s!"U:F:{pathStr cpath}:{cfe.infoLen}:{(fnvPieces i ps).toNat}:{if cfe.infoLen = 0 then 0 else first}"
          else err s!"udf-file-type:{pathStr cpath}:{cfe.fileType}"
      pos := pos + flen
      k := k + 1
    if !sawParent then err s!"udf-directory-without-parent-fid:{what}"
    if pos ≠ fe.infoLen then err s!"udf-fids-do-not-fill-info-length:{what}:{pos}!={fe.infoLen}"
  return (nfiles, ndirs)

def readUdf (i : Img) : RM Unit := do
  -- volume recognition sequence: scan the 2048-byte structures from sector 16
  let mut sec := 16
  let mut seq : Array String := #[]
  let mut fuel := 64
  while fuel > 0 ∧ (sec + 1) * 2048 ≤ i.size do
    fuel := fuel - 1
    let id := String.ofList ((i.slice (sec * 2048 + 1) 5).map fun x => Char.ofNat x.toNat)
    if id = "CD001" ∨ id = "BEA01" ∨ id = "NSR02" ∨ id = "NSR03" ∨ id = "TEA01" ∨ id = "BOOT2" then
      seq := seq.push id
      if id ≠ "CD001" then
        alloc s!"vrs{sec}:{id}" sec 1
        if i.b (sec * 2048) ≠ 0 ∨ i.b (sec * 2048 + 6) ≠ 1 then err s!"udf-vrs-structure:{id}"
      sec := sec + 1
    else break
  let ext := seq.toList.filter (· ≠ "CD001")
  if ext.isEmpty then return           -- not a UDF image
  info "udf=1"
  if !(ext = ["BEA01", "NSR02", "TEA01"] ∨ ext = ["BEA01", "NSR03", "TEA01"]) then
    err s!"udf-vrs-sequence:{ext}"
  -- anchors
  let last := i.sectors - 1
  let a1 ← checkTag i (256 * 2048) 2 256 "anchor256"
  let a2 ← checkTag i (last * 2048) 2 last s!"anchor-last"
  if !a1 then
    err "udf-no-anchor-at-256"
    return
  if !a2 then err "udf-no-anchor-at-last-sector"
  alloc "udf:anchor256" 256 1
  if a2 then alloc "udf:anchor-last" last 1
  if a2 ∧ i.slice (256 * 2048 + 16) 16 ≠ i.slice (last * 2048 + 16) 16 then err "udf-anchors-disagree"
  let mainLen := i.le32 (256 * 2048 + 16); let mainLoc := i.le32 (256 * 2048 + 20)
  let resLen := i.le32 (256 * 2048 + 24); let resLoc := i.le32 (256 * 2048 + 28)
  alloc "udf:mvds" mainLoc (mainLen / 2048)
  alloc "udf:rvds" resLoc (resLen / 2048)
  -- volume descriptor sequences
  let readVds (loc len : Nat) (nm : String) : RM (Option (Nat × Nat) × Option (Nat × Nat × Nat)) := do
    let mut pd : Option (Nat × Nat) := none
    let mut lvd : Option (Nat × Nat × Nat) := none     -- fsd lbn, integrity loc, integrity len
    let mut ended := false
    for k in [0 : len / 2048] do
      if ended then continue
      let p := (loc + k) * 2048
      let id := i.le16 p
      if id = 8 then
        let _ ← checkTag i p 8 (loc + k) s!"{nm}:td"
        ended := true
      else if id = 1 ∨ id = 4 ∨ id = 5 ∨ id = 6 ∨ id = 7 then
        let _ ← checkTag i p id (loc + k) s!"{nm}:desc{id}"
        if id = 5 then pd := some (i.le32 (p + 188), i.le32 (p + 192))
        if id = 6 then
          if i.le32 (p + 212) ≠ 2048 then err s!"udf-lvd-block-size:{nm}"
          lvd := some (i.le32 (p + 252), i.le32 (p + 436), i.le32 (p + 432))
      else if id = 0 then pure ()
      else err s!"udf-vds-unknown-descriptor:{nm}:{id}"
    if !ended then err s!"udf-vds-not-terminated:{nm}"
    return (pd, lvd)
  let (pd, lvd) ← readVds mainLoc mainLen "mvds"
  let (pd2, lvd2) ← readVds resLoc resLen "rvds"
  if pd ≠ pd2 ∨ lvd ≠ lvd2 then err "udf-main-and-reserve-sequences-differ"
  let some (partStart, partLen) := pd | err "udf-no-partition-descriptor"
  let some (fsdLbn, intLoc, intLen) := lvd | err "udf-no-logical-volume-descriptor"
  info s!"udfpart={partStart}+{partLen}"
  if partStart + partLen > i.sectors then err s!"udf-partition-outside-image:{partStart}+{partLen}>{i.sectors}"
  if a2 ∧ partStart + partLen ≠ last then err s!"udf-partition-length:{partStart}+{partLen}!={last}"
  -- logical volume integrity descriptor
  alloc "udf:lvid-extent" intLoc (intLen / 2048)
  let lv ← checkTag i (intLoc * 2048) 9 intLoc "lvid"
  let mut lvidFiles := 0
  let mut lvidDirs := 0
  if lv then
    let p := intLoc * 2048
    let np := i.le32 (p + 72)
    let sizeTab := i.le32 (p + 80 + 4 * np)
    if np ≠ 1 then err s!"udf-lvid-partitions:{np}"
    if sizeTab ≠ partLen then err s!"udf-lvid-size-table:{sizeTab}!={partLen}"
    lvidFiles := i.le32 (p + 80 + 8 * np + 32)
    lvidDirs := i.le32 (p + 80 + 8 * np + 36)
  -- file set descriptor
  let c : UdfCtx := { partStart := partStart, partLen := partLen }
  let fsdOk ← checkTag i ((partStart + fsdLbn) * 2048) 256 fsdLbn "fsd"
  if !fsdOk then return
  alloc "udf:fsd" (partStart + fsdLbn) 1
  let rootLbn := i.le32 ((partStart + fsdLbn) * 2048 + 404)
  let (nf, nd) ← readUdfTree i c rootLbn
  if lv then
    if lvidFiles ≠ nf then err s!"udf-lvid-num-files:{lvidFiles}!={nf}"
    if lvidDirs ≠ nd then err s!"udf-lvid-num-dirs:{lvidDirs}!={nd}"

end Pycdlib.Reader
