/-
Model/BootParse — reading an El Torito boot catalog the way pycdlib does when it opens an image.
Anchors: pycdlib.py `_check_for_eltorito` (the loop that feeds 32-byte entries to the catalog until it says it is
complete, and the rule for a catalog that fills its sector), eltorito.py `EltoritoBootCatalog.parse` (state machine),
`EltoritoValidationEntry.parse`, `EltoritoEntry.parse`, `EltoritoSectionHeader.parse`.
The catalog has no length field.  It ends with an empty entry — or, when it fills its sector completely (validation +
initial + 31 sections of one entry = 2048 bytes, which the library accepts), with the sector.
Mathlib-free.
-/
import Pycdlib.Model.Boot
namespace Pycdlib.Boot

def rd16 (b : List Nat) (o : Nat) : Nat := b.getD o 0 + 256 * b.getD (o + 1) 0
def rd32 (b : List Nat) (o : Nat) : Nat :=
  b.getD o 0 + 256 * b.getD (o + 1) 0 + 65536 * b.getD (o + 2) 0 + 16777216 * b.getD (o + 3) 0

/-- `EltoritoValidationEntry.parse`: header id, platform, key bytes, checksum; the result is the platform id -/
def parseValidation (c : List Nat) : Option Nat :=
  if c.getD 0 0 ≠ 1 then none
  else if !([0, 1, 2, 0xef].contains (c.getD 1 0)) then none
  else if c.getD 30 0 ≠ 0x55 then none
  else if c.getD 31 0 ≠ 0xAA then none
  else if (words16 c).sum % 65536 ≠ 0 then none
  else some (c.getD 1 0)

/-- `EltoritoEntry.parse` -/
def parseEntry (c : List Nat) : Option Entry :=
  if c.getD 0 0 ≠ 0x88 ∧ c.getD 0 0 ≠ 0 then none
  else if c.getD 1 0 > 4 then none
  else if c.getD 5 0 ≠ 0 then none
  else some { bootable := c.getD 0 0 = 0x88, media := c.getD 1 0, loadSeg := rd16 c 2, sysType := c.getD 4 0,
              count := rd16 c 6, rba := rd32 c 8 }

/-- a section as read: indicator byte, platform, announced number of entries, entries seen -/
structure Sec where
  indicator : Nat
  platform : Nat
  declared : Nat
  entries : List Entry
deriving Repr, DecidableEq

structure Cat where
  platform : Nat
  initial : Entry
  sections : List Sec
  standalone : List Entry
deriving Repr, DecidableEq

/-- the last section header still announces entries that have not been read -/
def waiting (secs : List Sec) : Bool :=
  match secs.getLast? with
  | some s => s.entries.length < s.declared
  | none => false

/-- the checks made when the catalog is complete: every header saw the entries it announced, every header but the
last is 0x90 -/
def finishOk : List Sec → Bool
  | [] => true
  | [s] => s.declared == s.entries.length
  | s :: rest => s.declared == s.entries.length && s.indicator == 0x90 && finishOk rest

def addToLast (secs : List Sec) (e : Entry) : List Sec :=
  match secs.getLast? with
  | some s => secs.dropLast ++ [{ s with entries := s.entries ++ [e] }]
  | none => secs

inductive Step where
  | more (secs : List Sec) (alone : List Entry)
  | done
  | bad

/-- one 32-byte entry after the initial entry (`EXPECTING_SECTION_HEADER_OR_DONE`) -/
def stepEntry (secs : List Sec) (alone : List Entry) (c : List Nat) : Step :=
  let v := c.getD 0 0
  if v = 0 ∧ waiting secs = false then .done
  else if v = 0x90 ∨ v = 0x91 then
    .more (secs ++ [{ indicator := v, platform := c.getD 1 0, declared := rd16 c 2, entries := [] }]) alone
  else if v = 0x88 ∨ v = 0 then
    match parseEntry c with
    | none => .bad
    | some e => if waiting secs then .more (addToLast secs e) alone else .more secs (alone ++ [e])
  else if v = 0x44 then
    -- a section entry extension is appended to the selection criteria of the last entry (not modelled: kept as is);
    -- without a section to attach it to the library fails
    match secs.getLast? with
    | some s => if s.entries.isEmpty then .bad else .more secs alone
    | none => .bad
  else .bad

/-- the loop of `_check_for_eltorito` after validation and initial entry: `n` entries have been read so far -/
def parseRest (platform : Nat) (initial : Entry) : List (List Nat) → Nat → List Sec → List Entry → Option Cat
  | [], n, secs, alone =>
    -- nothing left to read
    if n = 64 ∧ waiting secs = false then
      if finishOk secs then some ⟨platform, initial, secs, alone⟩ else none
    else none
  | c :: cs, n, secs, alone =>
    if n = 64 ∧ waiting secs = false then
      -- the catalog filled its sector: it ends here, whatever follows
      if finishOk secs then some ⟨platform, initial, secs, alone⟩ else none
    else
      match stepEntry secs alone c with
      | .done => if finishOk secs then some ⟨platform, initial, secs, alone⟩ else none
      | .bad => none
      | .more secs' alone' => parseRest platform initial cs (n + 1) secs' alone'

/-- cut a byte string into 32-byte entries (a short tail is dropped: the library fails on it) -/
def toChunks : Nat → List Nat → List (List Nat)
  | 0, _ => []
  | fuel + 1, b => if b.length < 32 then [] else b.take 32 :: toChunks fuel (b.drop 32)

/-- the catalog as the library reads it from the bytes that start at the catalog's sector -/
def parseCatalog (bytes : List Nat) : Option Cat :=
  match toChunks bytes.length bytes with
  | v :: i :: rest =>
    match parseValidation v, parseEntry i with
    | some p, some ini => parseRest p ini rest 2 [] []
    | _, _ => none
  | _ => none

/-- the catalog sector as written: the catalog bytes, zero-padded to 2048 -/
def catalogSector (platform : Nat) (initial : Entry) (sections : List (Nat × Entry)) : List Nat :=
  let b := catalogBytes platform initial sections
  b ++ List.replicate (2048 - b.length) 0

/-- one-entry sections as they must be read back: the last header is 0x91, the others 0x90 -/
def secsOf : List (Nat × Entry) → List Sec
  | [] => []
  | [(p, e)] => [⟨0x91, p, 1, [e]⟩]
  | (p, e) :: rest => ⟨0x90, p, 1, [e]⟩ :: secsOf rest

/-- what reading a catalog of one-entry sections must give -/
def expectedCat (platform : Nat) (initial : Entry) (sections : List (Nat × Entry)) : Cat :=
  { platform := platform, initial := initial, standalone := [], sections := secsOf sections }

end Pycdlib.Boot
