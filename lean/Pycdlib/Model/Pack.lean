/-
Model/Pack — next-fit packing of variable-length records into fixed-size blocks.
Anchors: dr.py `_recalculate_extents_and_offsets` (:706, cached per-child `extents_to_here` / `offset_to_here`),
`_add_child` growth test (:795-809), `remove_child` shrink test (:907-921);
pycdlib.py `_write_directory_records` placement loop (:2679-2688); `modify_file_in_place` offset
computation (:4466-4469).  Mathlib-free.
-/
namespace Pycdlib

/-- packing state: (number of blocks used so far, bytes used in the current block) -/
abbrev NF := Nat × Nat

/-- place one record of length `l`: move to a fresh block when it does not fit -/
def nfStep (bs : Nat) (st : NF) (l : Nat) : NF :=
  if st.2 + l > bs then (st.1 + 1, l) else (st.1, st.2 + l)

def nfFold (bs : Nat) (st : NF) (ls : List Nat) : NF := ls.foldl (nfStep bs) st

/-- `_recalculate_extents_and_offsets(0, bs)` : from scratch -/
def nextFit (bs : Nat) (ls : List Nat) : NF := nfFold bs (1, 0) ls

/-- the per-child cache (`extents_to_here`, `offset_to_here`) after a full recalculation -/
def nfScan (bs : Nat) (st : NF) : List Nat → List NF
  | [] => []
  | l :: ls => nfStep bs st l :: nfScan bs (nfStep bs st l) ls

/-- where the writer puts each record: (block index relative to the directory's first block, byte offset) -/
def writerPlace (bs : Nat) (blk off : Nat) : List Nat → List (Nat × Nat)
  | [] => []
  | l :: ls =>
    if off + l > bs then (blk + 1, 0) :: writerPlace bs (blk + 1) l ls
    else (blk, off) :: writerPlace bs blk (off + l) ls

/-- `_add_child` with `check_overflow`: the directory's `data_length` after inserting -/
def growLen (bs dataLen : Nat) (extents : Nat) : Nat × Bool :=
  if extents * bs > dataLen then (dataLen + bs, true) else (dataLen, false)

/-- `remove_child`: the directory's `data_length` after removing -/
def shrinkLen (bs dataLen : Nat) (st : NF) : Nat × Bool :=
  let total := (st.1 - 1) * bs + st.2
  if dataLen - total > bs then (dataLen - bs, true) else (dataLen, false)

end Pycdlib
