/-
Model/Ranges — the sectors claimed by the directories seen so far, as the parser keeps them since the repair of the
overlapping-directories defect: pycdlib.py `_walk_directories`, `dir_range_starts` / `dir_range_ends` (sorted, pairwise
disjoint ranges; a new directory whose range meets one of them is refused with PyCdlibInvalidISO).  Mathlib-free.
-/
namespace Pycdlib.Ranges

/-- claim the range [s, e): `none` = refused because it meets a range already claimed -/
def claim : List (Nat × Nat) → Nat → Nat → Option (List (Nat × Nat))
  | [], s, e => some [(s, e)]
  | r :: rs, s, e =>
    if e ≤ r.1 then some ((s, e) :: r :: rs)
    else if r.2 ≤ s then (claim rs s e).map (r :: ·)
    else none

/-- a sequence of directories (first sector, number of sectors ≥ 1) as the walk meets them -/
def claimAll : List (Nat × Nat) → List (Nat × Nat) → Option (List (Nat × Nat))
  | rs, [] => some rs
  | rs, (s, n) :: more =>
    match claim rs s (s + n) with
    | none => none
    | some rs' => claimAll rs' more

def total (rs : List (Nat × Nat)) : Nat := (rs.map fun r => r.2 - r.1).sum

/-- sorted, pairwise disjoint, every range non-empty -/
def Sorted (rs : List (Nat × Nat)) : Prop := rs.Pairwise (fun a b => a.2 ≤ b.1) ∧ ∀ r ∈ rs, r.1 < r.2

end Pycdlib.Ranges
