/-
Model/Tools — the pure naming / hashing logic of tools/pycdlib-genisoimage.
Anchors: tools/pycdlib-genisoimage `mm3hash` (:45), `build_joliet_path` (:158), `build_iso_path` (:511).
`mm3` is the 32-bit murmur3 the tool uses as its duplicate-detection key (seed restricted to 0 ≤ seed < 2^32,
which is every first-chunk call; chained negative seeds are not modelled).  `isoChild` is `build_iso_path`
without the parent-path prefix: mangle, then number colliding siblings `PREFIX%.03d[.EXT]`.
Mathlib-free.
-/
import Pycdlib.Model.Mangle
namespace Pycdlib.Tools
open Pycdlib

def M32 : Nat := 0xFFFFFFFF

def rotl (x r : Nat) : Nat := ((x <<< r) ||| (x >>> (32 - r))) &&& M32

def c1 : Nat := 0xcc9e2d51
def c2 : Nat := 0x1b873593

def scramble (k : Nat) : Nat := (c2 * rotl ((c1 * k) &&& M32) 15) &&& M32

def fmix (h : Nat) : Nat :=
  let h := h ^^^ (h >>> 16)
  let h := (h * 0x85ebca6b) &&& M32
  let h := h ^^^ (h >>> 13)
  let h := (h * 0xc2b2ae35) &&& M32
  h ^^^ (h >>> 16)

/-- body + tail: consumes 4 bytes at a time (little-endian word), then the 0–3 byte tail. -/
def mm3Body : Nat → List Nat → Nat
  | h, b0 :: b1 :: b2 :: b3 :: rest =>
    let k := (b3 <<< 24) ||| (b2 <<< 16) ||| (b1 <<< 8) ||| b0
    let h := h ^^^ scramble k
    let h := rotl h 13
    mm3Body ((h * 5 + 0xe6546b64) &&& M32) rest
  | h, [b0, b1, b2] => h ^^^ scramble ((b2 <<< 16) ^^^ (b1 <<< 8) ^^^ b0)
  | h, [b0, b1] => h ^^^ scramble ((b1 <<< 8) ^^^ b0)
  | h, [b0] => h ^^^ scramble b0
  | h, [] => h

/-- `mm3hash(key, seed) & 0xffffffff` -/
def mm3 (seed : Nat) (key : List Nat) : Nat := fmix (mm3Body seed key ^^^ key.length)

/-- the duplicate-detection key of `-duplicates-once`: (size, hash) -/
def dedupKey (data : List Nat) : Nat × Nat := (data.length, mm3 0 data)

/-- `'%.03d' % n` (three digits, zero padded; wider numbers print in full) -/
def digit (d : Nat) : Char := Char.ofNat (48 + d % 10)
def fmt3 (n : Nat) : List Char :=
  if n < 1000 then [digit (n / 100), digit (n / 10), digit n] else (Nat.repr n).toList

/-- the candidate the loop tries at `currnum = n` -/
def candidate (isDir : Bool) (pre ext : List Char) (n : Nat) : List Char :=
  if isDir then pre ++ fmt3 n else pre ++ fmt3 n ++ '.' :: ext

/-- first `n < 1000` whose candidate is free, searching upwards from `n` with `fuel` numbers left. -/
def firstFree (children : List (List Char)) (isDir : Bool) (pre ext : List Char) : Nat → Nat → Option (List Char)
  | 0, _ => none
  | fuel + 1, n =>
    if candidate isDir pre ext n ∈ children then firstFree children isDir pre ext fuel (n + 1)
    else some (candidate isDir pre ext n)

/-- `build_iso_path` minus the parent prefix: (chosen identifier or none, updated `mangled_children`) -/
def isoChild (upper : Upper) (children : List (List Char)) (name : List Char) (lvl : Nat) (isDir : Bool) :
    Option (List Char) × List (List Char) :=
  let (base, ext) := if isDir then (mangleDir upper name lvl, []) else mangleFile upper name lvl
  let mangled := if isDir || ext = [] then base else base ++ '.' :: ext
  if mangled ∈ children then
    match firstFree children isDir (base.take 5) ext 1000 0 with
    | none => (none, children)
    | some t => (some t, t :: children)
  else (some mangled, mangled :: children)

/-- a directory's worth of siblings, in order -/
def isoChildren (upper : Upper) (lvl : Nat) (isDir : Bool) :
    List (List Char) → List (List Char) → List (Option (List Char)) × List (List Char)
  | children, [] => ([], children)
  | children, n :: ns =>
    let (r, ch) := isoChild upper children n lvl isDir
    let (rs, ch') := isoChildren upper lvl isDir ch ns
    (r :: rs, ch')

/-- `build_joliet_path`: every component cut to 64 characters -/
def jolietComponents (root : List (List Char)) (name : List Char) : List (List Char) :=
  (root.filter (· ≠ [])).map (·.take 64) ++ [name.take 64]

def asciiUpper : Upper := fun c => [c.toUpper]

end Pycdlib.Tools
