/-
Model/Mangle — name-mangling helpers.
Anchors: pycdlib/utils.py `truncate_basename` (:311), `mangle_file_for_iso9660` (:344),
`mangle_dir_for_iso9660` (:417); facade.py `iso_path_to_rr_name` (:32) joins with '.'.
Python `str.upper()` is a *parameter* `upper : Char → List Char` (CPython applies the full case
mapping per code point; the harness checks that for every string it sends).  Mathlib-free.
-/
import Pycdlib.Model.Names
namespace Pycdlib

abbrev Upper := Char → List Char

def isD1Char (c : Char) : Bool :=
  ('A' ≤ c && c ≤ 'Z') || ('0' ≤ c && c ≤ '9') || c = '_'

/-- `re.sub('[^A-Z0-9_]{1}', '_', s)` -/
def subst (s : List Char) : List Char := s.map fun c => if isD1Char c then c else '_'

def upperStr (upper : Upper) (s : List Char) : List Char := s.flatMap upper

def maxLen (lvl : Nat) (isDir : Bool) : Nat :=
  if lvl = 1 then 8 else if isDir then 31 else 30

/-- `truncate_basename(basename, iso_level, is_dir)` -/
def truncateBasename (upper : Upper) (s : List Char) (lvl : Nat) (isDir : Bool) : List Char :=
  if lvl = 4 then s
  else (subst (upperStr upper (s.take (maxLen lvl isDir)))).take (maxLen lvl isDir)

/-- `mangle_file_for_iso9660(orig, iso_level)` : (basename, extension-with-version) -/
def mangleFile (upper : Upper) (orig : List Char) (lvl : Nat) : List Char × List Char :=
  match splitLast '.' orig with
  | none => if lvl = 4 then (orig, []) else (truncateBasename upper orig lvl false, [';', '1'])
  | some (base, ext) =>
    if lvl = 4 then (base, ext)
    else
      let up := upperStr upper ext
      if ext.length = 0 || ext.length > 3 || up.length > 3 || !(up.all isD1Char) then
        (truncateBasename upper orig lvl false, [';', '1'])
      else (truncateBasename upper base lvl false, up ++ [';', '1'])

/-- `mangle_dir_for_iso9660` -/
def mangleDir (upper : Upper) (orig : List Char) (lvl : Nat) : List Char :=
  truncateBasename upper orig lvl true

/-- the identifier the facades build: `'.'.join([basename, ext])` -/
def mangledFileIdent (upper : Upper) (orig : List Char) (lvl : Nat) : List Char :=
  let (b, e) := mangleFile upper orig lvl
  b ++ '.' :: e

/-- bytes of an ASCII string (only used on strings proved to be ASCII). -/
def asciiBytes (s : List Char) : Bytes := s.map fun c => UInt8.ofNat c.toNat

end Pycdlib
