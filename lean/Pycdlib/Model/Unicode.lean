/-
Model/Unicode — UTF-16BE / UTF-8 encoders (what Python's codecs produce for valid scalar values), used for the
Joliet and UDF names.  Anchors: pycdlib.py `_joliet_name_and_parent_from_path` (:877, `len(name) > 64` on the UTF-8
bytes, `name.decode('utf-8').encode('utf-16_be')`), udf.py `_ostaunicode` (:105).
The decoder `Reader.utf16beToUtf8` is the independent reader's.  Mathlib-free.
-/
import Pycdlib.Model.Reader
namespace Pycdlib

def isScalar (c : Nat) : Bool := (c < 0xD800 || (0xE000 ≤ c && c < 0x110000))

/-- UTF-16BE of one scalar value -/
def utf16beOf (c : Nat) : Bytes :=
  if c < 0x10000 then [(c / 256).toUInt8, (c % 256).toUInt8]
  else
    let v := c - 0x10000
    let hi := 0xD800 + v / 1024
    let lo := 0xDC00 + v % 1024
    [(hi / 256).toUInt8, (hi % 256).toUInt8, (lo / 256).toUInt8, (lo % 256).toUInt8]

def utf16be (cps : List Nat) : Bytes := cps.flatMap utf16beOf
def utf8s (cps : List Nat) : Bytes := cps.flatMap Reader.utf8

/-- number of UTF-16 code units of a scalar -/
def units16 (c : Nat) : Nat := if c < 0x10000 then 1 else 2

end Pycdlib
