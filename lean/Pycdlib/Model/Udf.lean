/-
Model/Udf — the UDF pieces whose correctness is arithmetic:
  * descriptor tag (ECMA-167 3/7.2): udf.py `UDFTag.record` (:683) — checksum over the 16 tag bytes, CRC-CCITT over the
    descriptor body, CRC length, location;
  * File Identifier Descriptor sizes (`UDFFileIdentifierDescriptor.length`, :4394) and the assignment of FIDs to
    blocks in `_udf_assign_extents` (pycdlib.py:1393-1412: running `offset`, spill into the next block when
    `offset >= 2048`, FIDs may straddle blocks).
Mathlib-free.
-/
import Pycdlib.Model.Checksum
namespace Pycdlib.Udf

/-- the 16 tag bytes (as naturals) for a descriptor whose body (bytes 16..) is `body` -/
def tagBytes (ident ver serial loc : Nat) (body : List Nat) : List Nat :=
  let crc := crc16 body
  let n := body.length
  let pre := [ident % 256, ident / 256 % 256, ver % 256, ver / 256 % 256]
  let post := [0, serial % 256, serial / 256 % 256, crc % 256, crc / 256 % 256, n % 256, n / 256 % 256,
               loc % 256, loc / 256 % 256, loc / 65536 % 256, loc / 16777216 % 256]
  let csum := (pre.sum + post.sum) % 256
  pre ++ [csum] ++ post

/-- what an ECMA-167 reader checks on a tag -/
def tagValid (tag : List Nat) (body : List Nat) (ident loc : Nat) : Bool :=
  tag.length = 16 &&
  tag.getD 0 0 + 256 * tag.getD 1 0 = ident &&
  tagChecksum tag = tag.getD 4 0 &&
  tag.getD 8 0 + 256 * tag.getD 9 0 = crc16 body &&
  tag.getD 10 0 + 256 * tag.getD 11 0 = body.length &&
  tag.getD 12 0 + 256 * tag.getD 13 0 + 65536 * tag.getD 14 0 + 16777216 * tag.getD 15 0 = loc

/-- FID length: 38 bytes + implementation use (0) + name with its compression id, rounded up to 4 -/
def fidLen (nameLen : Nat) : Nat := (38 + (if nameLen > 0 then nameLen + 1 else 0) + 3) / 4 * 4

/-- `_udf_assign_extents`' loop over `fi_descs`: block (relative to the directory's first FID block) assigned
to every FID, and the running (block, offset) -/
def fidAssign (bs : Nat) : Nat → Nat → List Nat → List Nat
  | _, _, [] => []
  | blk, off, l :: ls =>
    let (blk', off') := if off ≥ bs then (blk + 1, off - bs) else (blk, off)
    blk' :: fidAssign bs blk' (off' + l) ls

/-- the block a FID starts in when FIDs are written back to back from block 0 -/
def fidStartBlocks (bs : Nat) (start : Nat) : List Nat → List Nat
  | [] => []
  | l :: ls => start / bs :: fidStartBlocks bs (start + l) ls

/-- sectors used by a directory's FIDs (`ceiling_div(info_len, 2048)`, but at least one) -/
def fidSectors (lens : List Nat) : Nat := max 1 ((lens.sum + 2047) / 2048)

end Pycdlib.Udf
