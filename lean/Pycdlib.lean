import Pycdlib.Generated.Names
import Pycdlib.Model.Bytes
import Pycdlib.Model.Dispatch
import Pycdlib.Model.Err
import Pycdlib.Model.Mangle
import Pycdlib.Model.Names
import Pycdlib.Proofs.Names
import Pycdlib.Props.C13
